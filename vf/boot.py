"""Import the library under test from $OVLD_SRC (default /repo/src) with hooks enabled.

Every worker imports this module before anything else.  Nothing is cached on disk
(PYTHONDONTWRITEBYTECODE), so each run sees the current working tree.
"""
import os
import sys

sys.dont_write_bytecode = True
os.environ["OVLD_VERIF"] = "1"
OVLD_SRC = os.environ.get("OVLD_SRC", "/repo/src")
# the installed (editable) copy must not win over $OVLD_SRC
sys.path[:] = [p for p in sys.path if os.path.realpath(p) != os.path.realpath("/repo/src")]
sys.path.insert(0, OVLD_SRC)

import ovld  # noqa: E402

if not os.path.realpath(ovld.__file__).startswith(os.path.realpath(OVLD_SRC)):
    raise SystemExit(f"vf.boot: ovld imported from {ovld.__file__}, expected under {OVLD_SRC}")

try:
    from ovld import _verif  # noqa: E402
except Exception:  # hooks absent (e.g. a mutant copy made from an old tree)
    _verif = None

HOOKS = bool(_verif and getattr(_verif, "ENABLED", False))
