"""F50 (C03): a(x: int, b: int = 10, z: int = 100) + a(x: str, c: str = "c", z: int = 100): a(1, z=5) ran the int
method with z=100 - the keyword was silently dropped (entry point (ARG1, ARG2=MISSING, /, z=MISSING), branch for the
omitted ARG2).  After the fix the call is rejected (every positional parameter is strictly positional there)."""
from ovld import ovld


@ovld
def a(x: int, b: int = 10, z: int = 100):
    return ("int", x, b, z)


@ovld
def a(x: str, c: str = "c", z: int = 100):
    return ("str", x, c, z)


assert a(1, 2, 5) == ("int", 1, 2, 5)
try:
    r = a(1, z=5)
except TypeError:
    r = "rejected"
assert r in ("rejected", ("int", 1, 10, 5)), r
print("ok")
