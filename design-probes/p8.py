import itertools, typing, collections.abc as cabc
from typing import Literal
from ovld.mro import typeorder, subclasscheck, Order
from ovld.types import Union, Intersection, Exactly, StrictSubclass, HasMethod, normalize_type, Dataclass
from ovld import Dependent
from ovld.dependent import Equals, StartsWith, ProductType
class A: pass
class B(A): pass
class C(A): pass
class D(B, C): pass
class E: pass
def pos(x): return x > 0
def neg(x): return x < 0
DP = Dependent[int, pos]
base = [object, A, B, C, D, E, int, str, bool, cabc.Iterable, cabc.Sized]
lvl1 = []
for x, y in itertools.permutations([A,B,C,E,int,str], 2):
    lvl1.append(Union[x, y]); lvl1.append(Intersection[x, y])
for x in [A,B,D,int]:
    lvl1 += [Exactly[x], StrictSubclass[x], type[x]]
lvl1 += [HasMethod["__len__"], list[int], list[object], list[A], list[B], cabc.Iterable[int], list, dict[str,int], type, type[object]]
lvl1 += [Equals[0], Equals[1], Equals[0,1], DP, Dependent[int, neg], Dependent[object, pos], Dependent[bool, pos], StartsWith["a"], ProductType[int, str], ProductType[object, object], ProductType[int]]
types = base + lvl1
bad = {}
n=0
for t1, t2 in itertools.product(types, repeat=2):
    n+=1
    try:
        o12 = typeorder(t1, t2); o21 = typeorder(t2, t1)
    except Exception as e:
        bad.setdefault(("EXC", type(e).__name__), []).append((t1,t2)); continue
    if o12.opposite() is not o21:
        bad.setdefault(("asym", o12.name, o21.name), []).append((t1, t2))
    if t1 is t2 and o12 is not Order.SAME:
        bad.setdefault(("irrefl",), []).append((t1,t2))
print(n, "pairs")
for k, v in bad.items():
    print(k, len(v), v[:4])
