import sys, random, collections, itertools
from h import *
import pin
from ovld import Ovld
class A: pass
class B(A): pass
class C(A): pass
class D(B, C): pass
POOL = [object, A, B, C, D, int, str]
VALS = [object(), A(), B(), C(), D(), 1, "s"]
def run(seed):
    rng = random.Random(seed)
    npos = rng.choice([1, 1, 2]); params = [f"a{i}" for i in range(npos)]
    probes = [tuple(rng.choice(VALS) for _ in range(npos)) for _ in range(8)] if npos == 2 else [(v,) for v in VALS]
    H = Ovld(); live = []   # list of (mid, spec, fn) in registration order; re-registering same sig keeps both (stack)
    mids = itertools.count(); alarms = []; log = []
    def fresh():
        f = Ovld()
        for mid, spec, fn in live:
            f.register(make_fn(mid, spec["params"], spec["anns"], spec["body"]), priority=spec["prio"])
        return f
    for step in range(rng.randint(3, 16)):
        op = rng.choice(["reg", "reg", "reg", "rereg", "unreg", "call", "call"])
        if op == "reg" or (op in ("rereg", "unreg") and not live):
            mid = next(mids)
            spec = dict(params=params[:rng.choice([npos, npos, max(1, npos-1)])], prio=rng.choice([0, 0, 0, 1]), body=[f"return ({mid},)"])
            spec["anns"] = {p: rng.choice(POOL) for p in spec["params"]}
            fn = make_fn(mid, spec["params"], spec["anns"], spec["body"]); H.register(fn, priority=spec["prio"]); live.append((mid, spec, fn)); log.append(("reg", mid, [t.__name__ for t in spec["anns"].values()], spec["prio"]))
        elif op == "rereg":
            _, spec0, _ = rng.choice(live); mid = next(mids)
            spec = dict(spec0, body=[f"return ({mid},)"])
            fn = make_fn(mid, spec["params"], spec["anns"], spec["body"]); H.register(fn, priority=spec["prio"]); live.append((mid, spec, fn)); log.append(("rereg", mid, [t.__name__ for t in spec["anns"].values()], spec["prio"]))
        elif op == "unreg":
            ent = rng.choice(live); H.unregister(ent[2]); live.remove(ent); log.append(("unreg", ent[0]))
        else:
            p = rng.choice(probes); outcome(lambda: H(*p)); log.append(("call",)); continue
        if not live: continue
        F = fresh()
        for p in probes:
            g = outcome(lambda: H(*p))[:2]; e = outcome(lambda: F(*p))[:2]
            if g != e: alarms.append((step, [type(x).__name__ for x in p], g, e))
        if alarms: break
    return log, alarms
stats = collections.Counter(); exs = []
for seed in range(int(sys.argv[1])):
    log, alarms = run(seed)
    stats["progs"] += 1; stats["alarm_progs"] += bool(alarms)
    if alarms and len(exs) < 6: exs.append((seed, log, alarms[:2]))
print(stats)
for e in exs: print(e)
