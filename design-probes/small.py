import itertools, time
def hierarchies(n):
    """all class DAGs on n classes created in order; bases = antichain subsets of earlier classes (MRO-valid)"""
    def rec(classes):
        if len(classes) == n:
            yield list(classes); return
        k = len(classes)
        for r in range(0, k + 1):
            for bases in itertools.combinations(classes, r):
                if any(a is not b and issubclass(a, b) for a in bases for b in bases): continue
                for perm in ([bases] if len(bases) < 2 else itertools.permutations(bases)):
                    try: c = type(f"K{k}", tuple(perm) or (object,), {})
                    except TypeError: continue
                    yield from rec(classes + [c])
    yield from rec([])
def canon(classes):
    # isomorphism-invariant-ish signature: sorted tuple of (depth, n_ancestors, n_descendants, mro-length)
    sig = []
    for c in classes:
        anc = sum(1 for d in classes if d is not c and issubclass(c, d)); desc = sum(1 for d in classes if d is not c and issubclass(d, c))
        sig.append((anc, desc, len(c.__mro__), tuple(sorted(sum(1 for d in classes if d is not b and issubclass(b, d)) for b in c.__bases__ if b is not object))))
    return tuple(sorted(sig))
for n in (2, 3, 4, 5):
    t0 = time.time(); hs = list(hierarchies(n)); sigs = {canon(h) for h in hs}
    # subclass relation as the only thing dispatch sees (MRO order does not matter to issubclass): distinct partial orders
    rels = {tuple(tuple(issubclass(a, b) for b in h) for a in h) for h in hs}
    print(n, "creation-ordered hierarchies", len(hs), "distinct subclass relations", len(rels), "approx iso classes", len(sigs), round(time.time() - t0, 2), "s")
# size of method-set space for n=4: pool = 5 types (4 + object)
import math
pool = 5
one_pos_sets = sum(math.comb(pool, k) for k in range(1, 4))            # <=3 distinct one-position methods
prio_patterns = 3
print("n=4: one-position method sets (<=3 distinct types)", one_pos_sets, "x prio patterns ~", one_pos_sets * prio_patterns, "x 5 arg classes")
two_pos = math.comb(pool * pool, 2) + pool * pool
print("n=4: two-position sets of <=2 methods", two_pos, "x 25 arg tuples")
