import typing
from typing import Literal, Optional, Annotated, Any, List
from ovld import Ovld
class A: pass
class B: pass
class C(A, B): pass
class D(A): pass
def outcome(o, v):
    try: return o(v)
    except TypeError as e: return "ERR:" + ("amb" if "Ambiguous" in str(e) else "none" if "No method" in str(e) else str(e)[:50])
def build(ann, companions):
    o = Ovld()
    ns = {"ann": ann}
    def m(x): return "M"
    m.__annotations__ = {"x": ann}
    o.register(m)
    for i, c in enumerate(companions):
        def k(x, _i=i): return f"K{_i}"
        # can't have default... use closure
        def mk(i):
            def k(x): return f"K{i}"
            return k
        k = mk(i); k.__annotations__ = {"x": c}
        o.register(k)
    return o
vals = [A(), B(), C(), D(), 1, "s", None, 2.5, [1], ["a"], [], 0, True]
def cmp(label, spellings, companions):
    rows = []
    for sp in spellings:
        try:
            o = build(sp, companions)
            rows.append([outcome(o, v) for v in vals])
        except Exception as e:
            rows.append(["BUILD-EXC " + type(e).__name__ + str(e)[:40]])
    ok = all(r == rows[0] for r in rows)
    print(label, "OK" if ok else "DIFF")
    if not ok:
        for sp, r in zip(spellings, rows): print("    ", sp, r)
cmp("union", [typing.Union[A, B], A | B, (A, B), B | A, (B, A), typing.Union[B, A]], [object])
cmp("union+comp A", [typing.Union[A, B], A | B, (A, B), B | A, (B, A)], [A, object])
cmp("union vs union", [typing.Union[A, B], B | A], [typing.Union[A, int], object])
cmp("optional", [Optional[A], A | None, typing.Union[A, None], None | A], [object])
cmp("any", [Any, object, typing.Any], [int])
cmp("annotated", [Annotated[A, "x"], A], [object])
cmp("string", ["A", A], [object])
cmp("list", [list[int], List[int]], [object])
cmp("list+", [list[int], List[int]], [list, object])
cmp("literal", [Literal[0, 1], Literal[1, 0]], [object])
cmp("literal mixed", [Literal[0, "s"], Literal["s", 0]], [object])
cmp("literal+comp", [Literal[0, 1], Literal[1, 0]], [Literal[2], Literal[3], Literal[4], object])
cmp("optional literal", [Optional[Literal[0]], Literal[0] | None], [object])
