"""C01 - a method only ever runs on arguments its declared signature accepts.

Monitor (runs inside every generated method body, at entry): each bound parameter that is not the
method's *own* default object must satisfy the method's own annotation under the independent value
semantics of vf/tx.py:accepts (three-valued; only a definite 'does not accept' is an alarm); dependent
conditions are evaluated on private, unmonitored copies of the predicates.  A TypeError raised by
Python when the dispatcher calls a *method* with a shape it does not accept (wrong positional count,
missing required keyword, unexpected keyword) is the arity / keyword clause of the property and is an
alarm as well.  Entries reached directly, through recurse, call_next and f.next are all observed.
"""
from .. import boot  # noqa: F401
from .. import gen, tx as T
from ..methods import Default
from ..observe import pin
from ..prog import Program

ID = "C01"
LEVEL = "exploration"
RULE = ("cases = random hierarchy x 2-8 methods (arities 1-3 + other arities, optional positionals, kw-only "
        "parameters, priorities) whose annotations come from the whole grammar (class / Union / Intersection / "
        "Exactly / StrictSubclass / HasMethod / Literal / Dependent / tuple[...] / list[...] / Sequence[...] / "
        "StartsWith / EndsWith / Regexp / HasKey / type[...]) x 50 calls (values on both sides of each "
        "condition; positional counts 0-3; keyword subsets) with leaf / call_next / f.next / recurse bodies; "
        "distinct_nontrivial = distinct (method annotation vector, argument value vector) pairs observed at a method entry "
        "where the method has a value-dependent or composite parameter")
ASSUMPTIONS = [
    "the documented meaning of every annotation kind is transcribed in vf/tx.py:accepts",
    "cross-type Literal equality (True == 1, MyInt(2) == 2) is unspecified",
    "a wrong-but-acceptable method is C02's / C10's business, not C01's",
]
REPORT_COUNTERS = ["programs", "calls", "entries_checked", "params_checked", "entries_dependent_param",
                   "entries_via_call_next", "entries_via_recurse", "entries_composite_param", "omitted_defaults_seen",
                   "kw_params_checked", "kw_dependent_params_checked", "other_exceptions"]


def plan(tier):
    n = 2400 if tier == "quick" else 60000
    return {"cases": n, "params": {}, "timeout_s": 1200 if tier == "quick" else 7200,
            "min": {"entries_checked": 20_000, "entries_dependent_param": 2_000, "entries_via_call_next": 1_000,
                    "entries_composite_param": 2_000, "kw_params_checked": 300, "kw_dependent_params_checked": 100}}


def _gen_keyed_group(rng):
    """>= 4 methods in one rank keyed by disjoint Literals on the first position; some carry a second value
    condition on the next position; the last position trades off (a narrower class where the condition is missing)
    so that nobody dominates; a low-priority catch-all"""
    n = rng.randint(4, 7)
    keys = rng.sample([0, 1, 2, 3, 4, 7, 1000] if rng.random() < 0.6 else ["a", "ab", "b", "c", "d", "e", "f"], n)
    seconds = [["L", 0], ["L", "a"], ["L", 1, 2], ["D", "int", "even"], ["D", "object", "truthy"], ["D", "int", "ge3"]]
    methods = []
    for i, k in enumerate(keys):
        if rng.random() < 0.45:
            pos = [["L", k], rng.choice(seconds), "object"]
        else:
            pos = [["L", k], "object", rng.choice(["int", "MyInt", "int", "object"])]
        methods.append({"mid": i, "pos": [{"n": f"a{j}", "t": t} for j, t in enumerate(pos)], "kw": [], "prio": 0,
                        "kind": rng.choice(["leaf", "leaf", "next"])})
    methods.append({"mid": n, "pos": [{"n": f"a{j}", "t": "object"} for j in range(3)], "kw": [], "prio": -1, "kind": "leaf"})
    if rng.random() < 0.5:
        rng.shuffle(methods)
        for i, m in enumerate(methods):
            m["mid"] = i
    firsts = [["v", k] for k in keys] + [["v", 5], ["v", "zz"]]
    mids = [["v", 0], ["v", 1], ["v", 2], ["v", 3], ["v", 4], ["v", "a"], ["v", "b"], ["v", ""], ["v", None]]
    lasts = [["v", 1], ["mi", 2], ["v", "s"], ["v", 2.5]]
    calls = [{"pos": [rng.choice(firsts), rng.choice(mids), rng.choice(lasts)], "kw": {}} for _ in range(60)]
    return {"hier": [], "methods": methods, "npos": 3, "calls": calls, "keyed_group": True}


def gen_case(rng, params, idx):
    if idx % 6 == 5:
        return _gen_keyed_group(rng)
    hier = gen.gen_hierarchy(rng, rng.randint(2, 5), attrs=True)
    classes = [s["name"] for s in hier]
    npos = rng.choice([1, 2, 2, 3])
    methods = []
    for i in range(rng.randint(2, 8)):
        ar = npos if rng.random() < 0.8 else rng.randint(0, 3)
        pos = [{"n": f"a{j}", "t": gen.gen_wide_tx(rng, classes)} for j in range(ar)]
        if ar > 1 and rng.random() < 0.25:
            pos[-1]["opt"] = True
        kws = []
        if rng.random() < 0.25:
            for k in rng.sample(["k1", "k2"], rng.choice([1, 2])):
                # keyword-only parameters carry value-dependent annotations too
                kt = gen.gen_dep_tx(rng, classes) if rng.random() < 0.4 else rng.choice(classes + ["object", "int"])
                kws.append({"n": k, "t": kt, "req": rng.random() < 0.5})
            kws.sort(key=lambda k: k["n"])
        kind = rng.choice(["leaf", "leaf", "next", "rec", "nextalt", "recnest"] + (["fnext"] if not kws and ar == npos else []))
        if ar == 0:
            kind = "leaf"
        if any(p.get("opt") for p in pos) and kind in ("next", "fnext"):
            kind = "leaf"
        methods.append({"mid": i, "pos": pos, "kw": kws, "prio": rng.choice([0, 0, 1]), "kind": kind})
    if rng.random() < 0.2 and npos >= 1:
        # two Literal methods on one parameter whose values are equal across types (1 / True / 1.0, 0 / False)
        a, b = rng.sample([["L", 1], ["L", True], ["L", 1.0], ["L", 0], ["L", False], ["L", 1, 2], ["L", True, 2]], 2)
        j = rng.randrange(npos)
        for t in (a, b):
            pos = [{"n": f"a{i}", "t": (t if i == j else "object")} for i in range(npos)]
            methods.append({"mid": len(methods), "pos": pos, "kw": [], "prio": rng.choice([0, 0, 1]), "kind": "leaf"})
    gen.strict_first(rng, methods, 0.15)
    spec = {"hier": hier, "methods": methods, "npos": npos}
    vals = gen.values_for(hier, builtin=False) + gen.WIDE_VALUES
    cg = gen.CallGen(spec, vals)
    calls = []
    for _ in range(50):
        c = cg.call(rng, p_kw=0.4)
        if rng.random() < 0.1:
            c["pos"] = c["pos"][:rng.randint(0, len(c["pos"]))]
        calls.append(c)
    spec["calls"] = calls
    return spec


def check_case(spec, res):
    pin()
    env = T.Env(spec["hier"])
    try:
        prog = Program(spec, env=env, tag="c01")
        prog.ov.compile()
    except Exception as e:  # noqa: BLE001
        res.count("unbuildable")
        res.count("unbuildable_" + type(e).__name__)
        return
    res.count("programs")
    if spec.get("keyed_group"):
        res.count("keyed_group_programs")
    res.sample({k: spec[k] for k in ("hier", "methods", "npos")} | {"calls": spec["calls"][:3]})
    by = {m["mid"]: m for m in spec["methods"]}
    state = {"call": None, "first": True}
    env.predlog.keep = False

    def on_enter(mid, loc):
        m = by[mid]
        res.count("entries_checked")
        via = state["via"]
        if not state["first"]:
            res.count("entries_via_" + via) if via else None
        state["first"] = False
        state["via"] = {"next": "call_next", "fnext": "call_next", "nextalt": "call_next", "rec": "recurse", "recnest": "recurse"}.get(m["kind"])
        dep = comp = False
        for p in m["pos"] + m.get("kw", []):
            v = loc[p["n"]]
            if isinstance(v, Default) and v.mid == mid and v.name == p["n"]:
                res.count("omitted_defaults_seen")
                continue
            t = p.get("t") or "object"
            res.count("params_checked")
            if p in m.get("kw", []):
                res.count("kw_params_checked")
                if T.is_valuedep(t):
                    res.count("kw_dependent_params_checked")
            if T.is_valuedep(t):
                dep = True
            if not isinstance(t, str):
                comp = True
            ok = T.accepts(t, env, v)
            if ok is False:
                res.violation("entered-with-excluded-argument", [sorted(T.heads(t))], spec,
                              observed={"call": state["call"], "method": mid, "param": p["n"], "annotation": T.tname(t),
                                        "value": repr(v)[:40]},
                              acceptable="value accepted by the annotation")
        if dep:
            res.count("entries_dependent_param")
        if comp:
            res.count("entries_composite_param")
        if dep or comp:
            res.nontrivial([[T.tname(p.get("t") or "object") for p in m["pos"]], [repr(loc[p["n"]])[:30] for p in m["pos"]]])

    prog.vf.on_enter = on_enter
    for call in spec["calls"]:
        state.update(call=call, first=True, via=None)
        res.ev()
        res.count("calls")
        out = prog.call(call)
        if out[0] == "bind-method":
            res.violation("method-called-with-unacceptable-shape", [out[0]], spec,
                          observed={"call": call, "error": out[1]}, acceptable="only shapes the method accepts")
        elif out[0] == "exc":
            res.count("other_exceptions")
            res.violation("dispatch-crash", [out[1], out[2][:40]], spec, observed={"call": call, "error": list(out[:3])},
                          acceptable="method runs or dispatch TypeError", prop="C10")
    prog.close()
