from ovld import Ovld
from ovld.types import Exactly
from typing import Sequence
def show(label, fn):
    try: print(label, "->", fn())
    except Exception as e: print(label, "-> EXC", type(e).__name__, str(e).splitlines()[0][:100])
o = Ovld()
@o.register
def f(t: tuple[int]): return "tuple[int]"
@o.register
def f(t: tuple): return "tuple"
show("f((1,))", lambda: o((1,)))
show("f(('a',))", lambda: o(("a",)))
o2 = Ovld()
@o2.register
def g(t: list[int]): return "list[int]"
@o2.register
def g(t: list): return "list"
show("g([1])", lambda: o2([1])); show("g(['a'])", lambda: o2(["a"]))
o3 = Ovld()
@o3.register
def h(x: Exactly[int], y: int): return "E,int"
@o3.register
def h(x: Exactly[int], y: str): return "E,str"
@o3.register
def h(x: object, y: object): return "obj"
show("h(1,1)", lambda: o3(1, 1)); show("h(1,'s')", lambda: o3(1, "s")); show("h(True,1)", lambda: o3(True, 1))
