"""Cooperative thread scheduler driven by sys.monitoring (tool id 5).

Worker threads stop at each *genuine* CPython pre-emption point inside library code - function entry
(PY_START), calls of anything but a few inlined builtins (CALL), backward jumps (JUMP) - and a policy decides
who continues.  Exactly one registered thread runs at a time (token passing under one condition variable), so
a schedule is a deterministic function of the policy: it can be enumerated (single pre-emption sweep), sampled
(random / two pre-emptions) and replayed.  Threads are only switched at those points, so no interleaving is
manufactured that the interpreter could not produce.

The library's re-entrant resolution lock is replaced, for the controlled runs only, by a wrapper with the same
semantics whose blocking acquire hands the token to another thread instead of blocking the whole schedule.
"""
import os
import sys
import threading

from . import boot

TOOL = 5
LIBDIR = os.path.join(os.path.realpath(boot.OVLD_SRC), "ovld") + os.sep
NO_YIELD = (len, isinstance, type, str, tuple, id, hasattr, getattr, issubclass, list, dict, set, iter, next, repr)

_tls = threading.local()
_current = {"sched": None}
_installed = {"v": False}
_is_lib = {}


def _lib(code):
    fn = code.co_filename
    r = _is_lib.get(fn)
    if r is None:
        r = _is_lib[fn] = fn.startswith("<ovld:") or (not fn.startswith("<") and os.path.realpath(fn).startswith(LIBDIR))
    return r


def install():
    if _installed["v"]:
        return
    mon = sys.monitoring
    if mon.get_tool(TOOL) is None:
        mon.use_tool_id(TOOL, "vf-sched")
    E = mon.events

    def pt(code, kind):
        s = _current["sched"]
        if s is None:
            return
        tid = getattr(_tls, "tid", None)
        if tid is None:
            return
        s.point(tid, (code.co_name, kind))

    def on_start(code, off):
        if not _lib(code):
            return mon.DISABLE
        if code not in _line_state:
            # functions of the library that write shared state (attribute / item / global stores) are pre-empted
            # at every executed source line, not only at calls: a window between two plain assignments counts
            w = _line_state[code] = _writes_state(code)
            if w and _line_on["v"]:
                mon.set_local_events(TOOL, code, E.LINE)
        pt(code, "start")

    def on_line(code, lineno):
        pt(code, "line")

    def on_jump(code, off, dst):
        if not _lib(code):
            return mon.DISABLE
        if dst < off:
            pt(code, "jump")

    def on_call(code, off, fn, a0):
        if not _lib(code):
            return mon.DISABLE
        for x in NO_YIELD:
            if fn is x:
                return
        pt(code, "call")

    mon.register_callback(TOOL, E.PY_START, on_start)
    mon.register_callback(TOOL, E.JUMP, on_jump)
    mon.register_callback(TOOL, E.CALL, on_call)
    mon.register_callback(TOOL, E.LINE, on_line)
    _installed["v"] = True


_line_state = {}          # code object -> bool (writes shared state)
_line_on = {"v": False}
_STORES = {"STORE_ATTR", "STORE_SUBSCR", "DELETE_SUBSCR", "DELETE_ATTR", "STORE_GLOBAL"}


_MUTATORS = {"append", "add", "update", "pop", "clear", "setdefault", "extend", "insert", "remove", "discard", "popitem"}


def _writes_state(code):
    """stores to attributes / items / globals, or calls of the mutating methods of the built-in containers (a list that
    is grown with .append is written to as much as one that is assigned to)"""
    import dis
    try:
        return any(i.opname in _STORES or (i.opname in ("LOAD_ATTR", "LOAD_METHOD") and i.argval in _MUTATORS)
                   for i in dis.get_instructions(code))
    except Exception:  # noqa: BLE001
        return False


def line_points():
    """how many library functions are pre-empted line by line (evidence)"""
    return sum(1 for v in _line_state.values() if v)


def enable(on=True):
    mon = sys.monitoring
    E = mon.events
    mon.set_events(TOOL, (E.PY_START | E.JUMP | E.CALL) if on else 0)
    _line_on["v"] = bool(on)
    for code, w in list(_line_state.items()):
        if w:
            try:
                mon.set_local_events(TOOL, code, E.LINE if on else 0)
            except Exception:  # noqa: BLE001
                pass


class Deadlock(Exception):
    """a controlled thread waits for a lock that the harness thread - which is itself waiting for the controlled
    threads to finish - was left holding: no schedule can make progress (a logical verdict, not a time-out)"""


class SchedLock:
    """RLock with the scheduler's cooperation: a thread that cannot take it gives the token away."""

    def __init__(self):
        self._real = threading.RLock()
        self.owner = None      # tid of the controlled thread holding it
        self.depth = 0
        self.foreign = 0       # depth held by the (uncontrolled) harness thread
        self.foreign_ident = None

    def acquire(self, blocking=True, timeout=-1):
        s = _current["sched"]
        tid = getattr(_tls, "tid", None)
        if s is None or tid is None:
            r = self._real.acquire(blocking, timeout)
            if r and s is None:
                self.foreign += 1
                self.foreign_ident = threading.get_ident()
            return r
        while not self._real.acquire(False):
            if self.foreign > 0 and self.owner is None and self.foreign_ident == threading.main_thread().ident:
                raise Deadlock("the library's lock is still held by the thread that ran the earlier (failed) build")
            s.blocked(tid, self.owner)
        self.owner = tid
        self.depth += 1
        return True

    def release(self):
        if self.owner is not None and getattr(_tls, "tid", None) == self.owner:
            self.depth -= 1
            if self.depth == 0:
                self.owner = None
        elif self.foreign > 0 and threading.get_ident() == self.foreign_ident:
            self.foreign -= 1
        self._real.release()

    def __enter__(self):
        self.acquire()
        return self

    def __exit__(self, *a):
        self.release()


class _ThreadingShim:
    """stands in for the `threading` module inside the library's modules during controlled runs: locks the
    library creates while a schedule is running are scheduler-aware too (e.g. a per-object lock)"""

    def __init__(self, real):
        self._real = real

    def RLock(self):
        return SchedLock()

    def Lock(self):
        return SchedLock()

    def __getattr__(self, name):
        return getattr(self._real, name)


_RLOCK_T = type(threading.RLock())


def held_at_quiescence(release=True):
    """Invariant at a quiescent point: no lock of the library may be held by the calling thread when none of the
    library's functions is running on it.  Returns the names of module-level ovld.* locks found held (and lets go of
    them when `release`, so that one leak does not poison every later case of this process)."""
    found = []
    me = threading.get_ident()
    for name, mod in list(sys.modules.items()):
        if not (name == "ovld" or name.startswith("ovld.")) or mod is None:
            continue
        for k, v in list(vars(mod).items()):
            if isinstance(v, SchedLock):
                if v.foreign > 0 and v.foreign_ident == me:
                    found.append(f"{name}.{k}")
                    while release and v.foreign > 0:
                        v.release()
            elif isinstance(v, _RLOCK_T):
                try:
                    owned = v._is_owned()
                except Exception:  # noqa: BLE001
                    owned = False
                if owned:
                    found.append(f"{name}.{k}")
                    while release and v._is_owned():
                        v.release()
    return sorted(set(found))


def patch_lock():
    """Make every lock of the library scheduler-aware for the controlled runs (returns an undo function):
    module-level lock objects of ovld.* modules are replaced by SchedLock instances (one per original lock, so
    sharing between modules is preserved) and the modules' `threading` attribute by a shim whose RLock / Lock
    build SchedLocks."""
    lock_types = (type(threading.RLock()), type(threading.Lock()))
    undo_list = []
    replaced = {}
    for name, mod in list(sys.modules.items()):
        if not (name == "ovld" or name.startswith("ovld.")) or mod is None:
            continue
        for k, v in list(vars(mod).items()):
            if isinstance(v, lock_types):
                new = replaced.setdefault(id(v), SchedLock())
                undo_list.append((mod, k, v))
                setattr(mod, k, new)
            elif v is threading:
                undo_list.append((mod, k, v))
                setattr(mod, k, _ThreadingShim(threading))

    def undo():
        for mod, k, v in undo_list:
            setattr(mod, k, v)
    return undo


class Timeout(Exception):
    pass


class Scheduler:
    """policy: object with next(sched, tid, where) -> tid to run next (may be tid itself)."""

    def __init__(self, nthreads, policy, timeout=20.0):
        self.n = nthreads
        self.policy = policy
        self.cv = threading.Condition()
        self.token = 0
        self.state = ["new"] * nthreads     # new | ready | blocked | done
        self.points = [0] * nthreads
        self.switches = []                  # (at point index of from-thread, from, to)
        self.trace = []                     # tid per point (compressed later)
        self.where = {}
        self.locs = [[] for _ in range(nthreads)]    # per thread: (function name, kind) of each of its points
        self.timeout = timeout
        self.timed_out = False

    # -- helpers (cv held) ---------------------------------------------------------------------
    def _runnable(self, exclude=None):
        return [t for t in range(self.n) if self.state[t] in ("ready", "blocked") and t != exclude]

    def _give(self, to):
        self.token = to
        self.cv.notify_all()

    def _wait_token(self, tid):
        while self.token != tid:
            if not self.cv.wait(self.timeout):
                self.timed_out = True
                self.token = tid          # break the schedule rather than hang; the run is inconclusive
                raise Timeout()

    # -- thread life cycle ------------------------------------------------------------------------
    def start(self, tid):
        _tls.tid = None
        with self.cv:
            self.state[tid] = "ready"
            self.cv.notify_all()
            # nobody moves before every thread is at the starting line
            while any(st == "new" for st in self.state):
                if not self.cv.wait(self.timeout):
                    self.timed_out = True
                    raise Timeout()
            self._wait_token(tid)
        _tls.tid = tid

    def finish(self, tid):
        _tls.tid = None
        with self.cv:
            self.state[tid] = "done"
            rest = self._runnable()
            if rest:
                nxt = self.policy.on_done(self, tid, rest)
                self._give(nxt)
            else:
                self.cv.notify_all()

    def point(self, tid, where):
        _tls.tid = None           # the scheduler's own calls must not re-enter
        try:
            with self.cv:
                self.points[tid] += 1
                self.trace.append(tid)
                self.locs[tid].append(where)
                key = where[0]
                self.where[key] = self.where.get(key, 0) + 1
                others = [t for t in range(self.n) if self.state[t] == "ready" and t != tid]
                nxt = self.policy.next(self, tid, where, others)
                if nxt != tid and nxt in others:
                    self.switches.append((self.points[tid], tid, nxt))
                    self._give(nxt)
                    self._wait_token(tid)
        finally:
            _tls.tid = tid

    def blocked(self, tid, owner=None):
        """tid could not take the library's lock: hand the token to the thread that holds it"""
        _tls.tid = None
        try:
            with self.cv:
                others = [t for t in range(self.n) if self.state[t] == "ready" and t != tid]
                if owner is not None and owner in others:
                    nxt = owner
                elif others:
                    nxt = others[0]
                else:
                    self.cv.wait(0.001)     # holder is not a controlled thread: plain retry
                    return
                self.switches.append((self.points[tid], tid, nxt, "lock"))
                self._give(nxt)
                self._wait_token(tid)
        finally:
            _tls.tid = tid

    def signature(self):
        out, last = [], None
        run = 0
        for t in self.trace:
            if t == last:
                run += 1
            else:
                if last is not None:
                    out.append((last, run))
                last, run = t, 1
        if last is not None:
            out.append((last, run))
        return tuple(out)


class RunAlone:
    """no pre-emption at all (used to count points)"""

    def next(self, s, tid, where, others):
        return tid

    def on_done(self, s, tid, rest):
        return rest[0]


class Sweep:
    """thread `first` runs alone up to its k-th point, then the others run to completion, then it resumes;
    with k2, a second pre-emption of the (then running) other thread at its k2-th point."""

    def __init__(self, k, first=0, k2=None):
        self.k, self.first, self.k2 = k, first, k2
        self.fired = False
        self.fired2 = False

    def next(self, s, tid, where, others):
        if tid == self.first and not self.fired and s.points[tid] >= self.k and others:
            self.fired = True
            return others[0]
        if self.k2 is not None and self.fired and not self.fired2 and tid != self.first and s.points[tid] >= self.k2 and others:
            self.fired2 = True
            return others[0]
        return tid

    def on_done(self, s, tid, rest):
        return rest[0]


class RandomSwitch:
    def __init__(self, p, rng):
        self.p, self.rng = p, rng

    def next(self, s, tid, where, others):
        if others and self.rng.random() < self.p:
            return self.rng.choice(others)
        return tid

    def on_done(self, s, tid, rest):
        return self.rng.choice(rest)


def run_threads(bodies, policy, first=0, timeout=20.0):
    """bodies: list of thunks; runs them as controlled threads.  -> (results, scheduler)
    results[i] = ("ok", value) | ("exc", exception)"""
    n = len(bodies)
    s = Scheduler(n, policy, timeout)
    s.token = first
    results = [None] * n
    _current["sched"] = s

    def worker(i):
        try:
            s.start(i)
        except Timeout:
            results[i] = ("timeout",)
            return
        try:
            results[i] = ("ok", bodies[i]())
        except Timeout:
            results[i] = ("timeout",)
        except BaseException as e:  # noqa: BLE001
            results[i] = ("exc", e)
        finally:
            s.finish(i)

    ts = [threading.Thread(target=worker, args=(i,), daemon=True) for i in range(n)]
    for t in ts:
        t.start()
    for t in ts:
        t.join(timeout * 2)
    _current["sched"] = None
    if any(t.is_alive() for t in ts) or any(r is None for r in results):
        s.timed_out = True
        results = [r if r is not None else ("timeout",) for r in results]
    return results, s
