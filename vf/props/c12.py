"""C12 - the specificity order on types is mirror-symmetric and matches subclassing.

Monitor: algebraic laws on ``typeorder`` - only the laws the statement spells out:
  L1  typeorder(a, b).opposite() is typeorder(b, a)            for every pair of the closure
  L2  typeorder(t, t) is SAME, also for an independently built equal copy of t
  L3  on plain classes / ABCs / protocols: LESS / MORE / NONE exactly as issubclass says (all pairs),
      hence transitive (checked on triples)
  L4  G[args] LESS G;  same origin: argument-wise merge of the argument orders
  L5  Union MORE than each member, Intersection LESS than each member, value-dependent type
      (Dependent, Literal, tuple[...]) LESS than its bound
evaluated on (a) all pairs of a bounded-depth closure of the constructors over a random hierarchy,
built twice, and (b) **online**: every pair the library itself compares (typeorder is wrapped in the
three modules that bound it at import) while an embedded dispatch workload runs - exactly the pairs on
which an asymmetry can change a dispatch.
"""
import itertools
import random

from .. import boot  # noqa: F401
from .. import gen, tx as T
from ..observe import pin
from ..prog import Program

import ovld.dependent as _dep
import ovld.mro as _mro
import ovld.types as _types
from ovld.mro import Order
from ovld.types import normalize_type

ID = "C12"
LEVEL = "exploration"
RULE = ("cases = random hierarchy (3-6 classes + ABC / protocol / builtins) -> closure of class, generic alias, "
        "type[...], Union, Intersection, Exactly, StrictSubclass, HasMethod, Literal, Dependent, tuple[...] to nesting "
        "depth 2 (~120 types, built twice) -> all ordered pairs for L1/L2, all class pairs and triples for L3, generated "
        "generic pairs for L4, every constructed type against its members / bound for L5; plus pairs harvested from an "
        "embedded dispatch workload (12 programs per case). distinct_nontrivial = distinct unordered pairs of "
        "structurally distinct types (by expression) on which L1 was evaluated")
ASSUMPTIONS = [
    "Whatever is excluded (documented as incoherent); Deferred is outside the statement's list",
    "issubclass defines the order on plain classes, ABCs and protocols",
    "different-origin generic pairs are evidence only (the statement fixes the same-origin case)",
]
REPORT_COUNTERS = ["hierarchies", "pairs_L1", "reflexive_L2", "reflexive_respelled_L2", "dependent_admits_own_bound_L2", "dependent_admits_declared_bound_L2", "passed_class_vs_class_L3", "class_pairs_L3", "class_triples_L3", "generic_L4",
                   "member_L5", "late_registration_L3", "pairs_seen_in_dispatch", "online_mirror_checked", "exceptions"]


def plan(tier):
    n = 48 if tier == "quick" else 1200
    return {"cases": n, "params": {}, "timeout_s": 1500 if tier == "quick" else 7200,
            "min": {"pairs_L1": 100_000, "pairs_seen_in_dispatch": 1_000, "member_L5": 2_000, "class_triples_L3": 5_000,
                    "generic_L4": 300}}


# ------------------------------------------------------------------------------------------- closure
def flatten(tx):
    """typing.Union flattens nested unions and removes duplicates before ovld ever sees them"""
    if isinstance(tx, str):
        return tx
    h = tx[0]
    if h in ("U", "I"):
        ms = []
        for a in tx[1:]:
            a = flatten(a)
            if h == "U" and not isinstance(a, str) and a[0] == "U":
                ms += a[1:]
            else:
                ms.append(a)
        out = []
        for m in ms:
            if all(T.tname(m) != T.tname(o) for o in out):
                out.append(m)
        return out[0] if len(out) == 1 else [h, *out]
    if h in ("T", "Ls", "G", "Ty"):
        return [h] + [flatten(a) if not (h == "G" and i == 0) else a for i, a in enumerate(tx[1:])]
    return tx


def gen_case(rng, params, idx):
    hier = gen.gen_hierarchy(rng, rng.randint(3, 6))
    names = [s["name"] for s in hier]
    atoms = names + ["object", "int", "bool", "str", "MyInt", "HasFly", "HasFly2", "Hashable", "Shape", "Hook", "ABCMeta"]
    plain = names + ["object", "int", "bool", "str", "MyInt"]
    lvl1 = []
    for _ in range(14):
        a, b = rng.sample(atoms, 2)
        lvl1.append(["U", a, b])
        a, b = rng.sample(atoms, 2)
        lvl1.append(["I", a, b])
    for a in rng.sample(plain, 4):
        lvl1 += [["X", a], ["S", a]]
    lvl1 += [["H", "fly"], ["H", "bit_length"]]
    # also multi-valued Literals mixing ints and bools (values that are == across types: 1 / True, 0 / False)
    lvl1 += [["L", 0], ["L", 0, 1], ["L", "a"], ["L", 1], ["L", True], ["L", 1, True], ["L", 1, False], ["L", 0, True],
             ["L", False, 1], ["L", 0, "a"], ["L", "a", 0]]
    # the unions that the library builds as bounds of the mixed Literals, spelled separately (equal, not identical)
    lvl1 += [["U", "int", "str"], ["U", "str", "int"], ["U", "int", "bool"], ["U", "bool", "int"]]
    ua, ub = rng.sample(names, 2)
    lvl1 += [["U", ua, ub], ["D", ["U", ua, ub], "truthy"], ["D", ["U", ub, ua], "truthy"]]
    lvl1 += [["D", "int", "pos"], ["D", rng.choice(names), "truthy"], ["D", "object", "truthy"], ["D", "MyInt", "even"]]
    # one named condition given two unrelated bounds, one after the other: two types, each with its own bound
    lvl1 += [["D", "int", "truthy", "shared"], ["D", rng.choice(["str", "object", rng.choice(names)]), "truthy", "shared"]]
    lvl1 += [["T", "int", "str"], ["T", rng.choice(names)], ["T", "int"], ["T"]]
    # patterns of one parametrised @dependent_check function with typing.Any wildcards (docs/dependent.md, Wildcards):
    # nested, crossing (general in complementary places, equal and unequal numbers of wildcards), disjoint
    w = rng.choice([1, 2])
    lvl1 += [["W", w, "*"], ["W", "*", w], ["W", w, w], ["W", "*", "*"], ["W", w, "*", "*"], ["W", "*", 2, 1], ["W", 3 - w, "*"]]
    for a in rng.sample(plain, 3):
        lvl1 += [["G", "list", a], ["Ty", a]]
    lvl1 += [["G", "dict", "str", rng.choice(plain)], ["G", "Sequence", "int"], ["G", "list", "int"], ["Ty", "object"],
             ["Ty", "Shape"], ["Ty", "Hook"]]       # (classes whose metaclass, ABCMeta, is among the plain classes)
    lvl2 = []
    pool = atoms + lvl1
    for _ in range(26):
        a, b = rng.sample(pool, 2)
        h = rng.choice(["U", "I"])
        if h == "I" and any((not isinstance(x, str)) and x[0] in ("G", "Ty") for x in (a, b)):
            h = "U"
        lvl2.append(flatten([h, a, b]))
    # unions that contain a value-dependent member whose *bound* is itself a union / a class-check type
    x_ = rng.choice(plain)
    lvl2 += [["U", ["L", 0, "a"], x_], ["U", x_, ["L", "a", 0]], ["U", ["D", ["U", ua, ub], "truthy"], x_],
             ["U", ["D", ["H", "bit_length"], "truthy"], x_], ["I", ["L", 0, "a"], ["H", "bit_length"]]]
    lvl2 += [["T", rng.choice(lvl1[:28])], ["G", "list", ["G", "list", rng.choice(plain)]], ["Ty", ["G", "list", rng.choice(plain)]]]
    types, seen = [], set()
    for t in atoms + lvl1 + lvl2:
        t = flatten(t)
        if T.tname(t) not in seen:
            seen.add(T.tname(t))
            types.append(t)
    gens = []
    for _ in range(16):
        a, b = rng.choice(plain), rng.choice(plain)
        gens.append([rng.choice(["list", "dict", "nest", "dict2", "tuple2", "tuple2n", "dictL", "tupleL", "tupleLn", "tuple3"]), a, b])
    return {"hier": hier, "types": types, "generics": gens, "progseed": rng.randrange(1 << 30)}


# ------------------------------------------------------------------------------------------- F8 defect model
def _is_comb(t):
    return not isinstance(t, str) and t[0] in ("U", "I")


def _hook(t, other, objs, env, norm=None):
    """Transcription (frozen) of the __type_order__ rule of the constructor at the top of ``t`` applied to
    ``other``; sub-comparisons use the real functions.  Returns an Order, or None for NotImplemented /
    no hook.  This is the defect model of F8: typeorder lets the *first* operand's rule answer and never
    cross-checks the second operand's rule, so two rule-bearing types whose rules disagree compare
    asymmetrically."""
    from ovld.mro import subclasscheck
    real = _mro.typeorder
    if isinstance(t, str):
        return None
    h = t[0]
    oo = objs[T.tname(other)]
    if h in ("U", "I"):
        ords = [o for m in t[1:] if (o := real((norm or objs)[T.tname(m)], oo)) is not Order.NONE]
        if not ords:
            return Order.NONE
        if h == "U":
            return Order.MORE if any(x in (Order.MORE, Order.SAME) for x in ords) else Order.LESS
        return Order.LESS if any(x in (Order.LESS, Order.SAME) for x in ords) else Order.MORE
    if h == "X":
        base = env.cls(t[1])
        return Order.LESS if oo is base else real(base, oo)
    if h in ("D", "L", "T", "W"):
        def bound_obj(x):
            b = T.bound_of(x, env)
            if b is None:
                return None
            # a Literal mixing value types is bounded by the union of those types
            return env.cls(b) if isinstance(b, str) else normalize_type(T.ann(b, env), None)
        bound = bound_obj(t)
        if bound is None:
            return None
        if not isinstance(other, str) and other[0] in ("D", "L", "T", "W"):
            if h == "W" and other[0] == "W":
                # FuncDependentType.__lt__ as pinned: the other side has wildcards where this one is specific, never the reverse
                if len(t) != len(other):
                    return Order.NONE
                g1 = any(a == "*" and b != "*" for a, b in zip(t[1:], other[1:]))
                g2 = any(b == "*" and a != "*" for a, b in zip(t[1:], other[1:]))
                return Order.LESS if (g2 and not g1) else Order.MORE if (g1 and not g2) else Order.NONE
            if h == "T" and other[0] == "T":
                if len(t) != len(other):
                    return Order.NONE
                return Order.merge(real((norm or objs)[T.tname(x)], (norm or objs)[T.tname(y)]) for x, y in zip(t[1:], other[1:]))
            ob = bound_obj(other)
            if ob is None:
                return None
            o = real(bound, ob)
            return Order.NONE if o is Order.SAME else o
        return Order.LESS if (subclasscheck(oo, bound) or subclasscheck(bound, oo)) else Order.NONE
    return None


def _f8_predict(t1, t2, objs, env, norm=None):
    """(typeorder(t1,t2), typeorder(t2,t1)) under 'the first operand's rule answers', or (None, None)
    unless *both* operands carry an answering rule (only then can the two directions disagree)."""
    h12, h21 = _hook(t1, t2, objs, env, norm), _hook(t2, t1, objs, env, norm)
    if h12 is None or h21 is None:
        return None, None
    return h12, h21


# ------------------------------------------------------------------------------------------- online monitor
class Online:
    def __init__(self):
        self.seen = {}
        self.asym = []
        self.busy = False
        self.orig = _mro.typeorder
        self.count = 0

    def install(self):
        orig, me = self.orig, self

        def monitored(t1, t2):
            r = orig(t1, t2)
            if not me.busy:
                key = (id(t1), id(t2))
                if key not in me.seen:
                    me.busy = True
                    try:
                        try:
                            r2 = orig(t2, t1)
                        except Exception as e:  # noqa: BLE001
                            r2 = ("EXC", type(e).__name__)
                    finally:
                        me.busy = False
                    me.seen[key] = (t1, t2)
                    me.count += 1
                    if isinstance(r2, tuple) or r.opposite() is not r2:
                        me.asym.append((t1, t2, r, r2))
            return r
        for m in (_mro, _types, _dep):
            m.typeorder = monitored

    def uninstall(self):
        for m in (_mro, _types, _dep):
            m.typeorder = self.orig


def _kindsig(o):
    """shape of a real type object for signatures / classification"""
    h = getattr(o, "_handler", None)
    if h is not None:
        return type(h).__name__ if type(h).__name__ in ("Union", "Intersection") else "ClassCheck"
    if isinstance(o, _dep.DependentType):
        return "Dependent"
    if hasattr(o, "__origin__") and getattr(o, "__origin__", None) is not None:
        return "Generic"
    return "Class"


def check_case(spec, res):
    pin()
    env = T.Env(spec["hier"])
    res.count("hierarchies")
    res.sample({"hier": spec["hier"], "types": [T.tname(t) for t in spec["types"]][:40]})
    typeorder = _mro.typeorder
    objs, objs2 = {}, {}
    def build(t):
        # generic aliases and type[...] are compared as they are (typeorder's generic-alias branch);
        # everything else the way the normalizer hands it to the tables
        a = T.ann(t, env)
        return a if (not isinstance(t, str) and t[0] in ("G", "Ty")) else normalize_type(a, None)

    for t in spec["types"]:
        objs[T.tname(t)] = build(t)
    for t in spec["types"]:
        objs2[T.tname(t)] = build(t)
    # objects of every sub-expression too (members of unions, tuple elements), for the classifier
    full = dict(objs)
    norm = {}      # members of unions / intersections / tuples always arrive normalised

    def subs(t):
        if isinstance(t, str):
            full.setdefault(t, env.cls(t))
            norm.setdefault(t, env.cls(t))
            return
        if T.tname(t) not in full:
            full[T.tname(t)] = build(t)
        if T.tname(t) not in norm:
            norm[T.tname(t)] = normalize_type(T.ann(t, env), None)
        if t[0] in ("U", "I", "T"):
            for m in t[1:]:
                subs(m)
    for t in spec["types"]:
        subs(t)

    def real(a, b):
        return typeorder(a, b)

    def safe(a, b):
        try:
            return typeorder(a, b)
        except Exception as e:  # noqa: BLE001
            return ("EXC", type(e).__name__, str(e)[:50])

    types = spec["types"]
    names = [T.tname(t) for t in types]
    # L2
    for t, n in zip(types, names):
        res.ev()
        res.count("reflexive_L2")
        for other, label in ((objs[n], "same-object"), (objs2[n], "equal-copy")):
            r = safe(objs[n], other)
            if r is not Order.SAME:
                res.violation("L2-reflexive", [label, sorted(T.heads(t))], spec, observed={"type": n, "result": str(r)},
                              acceptable="SAME")
    # L2b: the same type written with the members of every (nested) union / intersection / Literal in reverse order
    def mirror(t):
        if isinstance(t, str):
            return t
        if t[0] in ("U", "I"):
            return [t[0], *[mirror(m) for m in reversed(t[1:])]]
        if t[0] == "L":
            return ["L", *reversed(t[1:])]
        if t[0] == "T":
            return ["T", *[mirror(m) for m in t[1:]]]
        return t
    for t, n in zip(types, names):
        if isinstance(t, str) or T.depth(t) < 2 or t[0] not in ("U", "I", "T"):
            continue
        m = mirror(t)
        if m == t:
            continue
        try:
            om = build(m)
        except Exception:  # noqa: BLE001
            continue
        res.ev()
        res.count("reflexive_respelled_L2")
        for x, y, label in ((objs[n], om, "written-vs-mirrored"), (om, objs[n], "mirrored-vs-written")):
            r = safe(x, y)
            if r is not Order.SAME:
                res.violation("L2-reflexive-respelled", [label, sorted(T.heads(t))], spec,
                              observed={"type": n, "mirrored": str(om)[:120], "result": str(r)}, acceptable="SAME")
    # L2c: building block of the union / bound laws - at the type level a value-dependent type admits its own bound
    # (whatever the bound is: a class, a union of classes, a structural type).  F8's classifier takes the library's
    # sub-comparisons as given, so a break here would otherwise be filed under F8.
    from ovld.mro import subclasscheck as _sc
    for n, o in objs.items():
        b = getattr(o, "bound", None)
        if isinstance(o, _dep.DependentType) and b is not None:
            res.ev()
            res.count("dependent_admits_own_bound_L2")
            try:
                r = _sc(b, o)
            except Exception as e:  # noqa: BLE001
                r = ("EXC", type(e).__name__)
            if r is not True:
                res.violation("L2-dependent-type-rejects-its-own-bound", [type(b).__name__], spec,
                              observed={"type": n, "bound": str(b)[:80], "subclasscheck(bound, type)": str(r)},
                              acceptable=True)
    # ... and the bound it was *written* with (another type made from the same condition must not have changed it)
    for t, n in zip(types, names):
        if not isinstance(t, str) and t[0] == "D" and n in objs:
            res.ev()
            res.count("dependent_admits_declared_bound_L2")
            try:
                B = normalize_type(T.ann(t[1], env), None)
                r = _sc(B, objs[n])
            except Exception as e:  # noqa: BLE001
                r = ("EXC", type(e).__name__)
            if r is not True:
                res.violation("L2-dependent-type-rejects-its-declared-bound", [T.tname(t[1])], spec,
                              observed={"type": n, "declared_bound": T.tname(t[1]), "subclasscheck(bound, type)": str(r),
                                        "bound_now": str(getattr(objs[n], "bound", None))[:60]},
                              acceptable=True)
    # L1
    for (i, a), (j, b) in itertools.combinations(enumerate(types), 2):
        na, nb = names[i], names[j]
        res.ev()
        res.count("pairs_L1")
        res.nontrivial([na, nb])
        o12, o21 = safe(objs[na], objs[nb]), safe(objs[nb], objs[na])
        if isinstance(o12, tuple) or isinstance(o21, tuple):
            res.count("exceptions")
            res.violation("typeorder-raises", [sorted(T.heads(a)), sorted(T.heads(b)), (o12 if isinstance(o12, tuple) else o21)[1]],
                          spec, observed={"a": na, "b": nb, "ab": str(o12), "ba": str(o21)}, acceptable="an Order member")
            continue
        if o12.opposite() is not o21:
            finding = None
            try:
                p12, p21 = _f8_predict(a, b, full, env, norm)
            except Exception:  # noqa: BLE001
                p12 = p21 = None
            if p12 is o12 and p21 is o21:
                finding = "F8"
            res.violation("L1-mirror", [_shape(a), _shape(b), o12.name, o21.name], spec,
                          observed={"a": na, "b": nb, "typeorder(a,b)": o12.name, "typeorder(b,a)": o21.name},
                          acceptable="mirror images", finding=finding)
    # L3b: a passed class against a plain class (its metaclass, `type`, object): the order follows the subtype test
    for (i, a), (j, b) in itertools.permutations(list(enumerate(types)), 2):
        if not isinstance(a, str) and a[0] == "Ty" and isinstance(a[1], str) and isinstance(b, str):
            na, nb = names[i], names[j]
            try:
                s12, s21 = _sc(objs[na], objs[nb]), _sc(objs[nb], objs[na])
            except Exception:  # noqa: BLE001
                continue
            res.ev()
            res.count("passed_class_vs_class_L3")
            got = safe(objs[na], objs[nb])
            exp = Order.LESS if s12 and not s21 else Order.MORE if s21 and not s12 else None
            if exp is not None and got is not exp:
                res.violation("L3-passed-class-vs-class", [nb in ("ABCMeta", "object", "type")], spec,
                              observed={"a": na, "b": nb, "subclasscheck(a,b)": s12, "subclasscheck(b,a)": s21, "typeorder": str(got)},
                              acceptable=exp.name)
    # L3
    classes = [t for t in types if isinstance(t, str)]
    cobj = {c: env.cls(c) for c in classes}
    for a, b in itertools.permutations(classes, 2):
        res.ev()
        res.count("class_pairs_L3")
        # classes that are (virtual) subclasses of each other are equal in the order
        exp = Order.LESS if issubclass(cobj[a], cobj[b]) and not issubclass(cobj[b], cobj[a]) else \
            Order.MORE if issubclass(cobj[b], cobj[a]) and not issubclass(cobj[a], cobj[b]) else \
            Order.NONE if not issubclass(cobj[a], cobj[b]) else Order.SAME
        got = safe(cobj[a], cobj[b])
        if exp is not None and got is not exp:
            res.violation("L3-issubclass", [a in T.Env.BUILTINS, b in T.Env.BUILTINS], spec,
                          observed={"a": a, "b": b, "typeorder": str(got)}, acceptable=exp.name)
    for a, b, c in itertools.permutations(classes, 3):
        res.count("class_triples_L3")
        if safe(cobj[a], cobj[b]) is Order.LESS and safe(cobj[b], cobj[c]) is Order.LESS:
            res.ev()
            if safe(cobj[a], cobj[c]) is not Order.LESS:
                res.violation("L3-transitive", ["classes"], spec, observed={"a": a, "b": b, "c": c}, acceptable="LESS")
    # L3 after a late ABC registration: the answer follows issubclass as it is *now*, in both directions
    Shape = env.cls("Shape")
    late = [c for c in classes if c in [x["name"] for x in spec["hier"]] and not issubclass(cobj[c], Shape)][:2]
    for c in late:
        before = (safe(cobj[c], Shape), safe(Shape, cobj[c]))
        Shape.register(cobj[c])
        for a, b in ((cobj[c], Shape), (Shape, cobj[c])):
            res.ev()
            res.count("late_registration_L3")
            exp = Order.LESS if a is not Shape else Order.MORE
            got = safe(a, b)
            if got is not exp:
                res.violation("L3-issubclass-after-late-registration", [str(before[0]), str(got)], spec,
                              observed={"class": c, "before_registration": [str(x) for x in before], "typeorder": str(got),
                                        "direction": "class,ABC" if a is not Shape else "ABC,class"},
                              acceptable=exp.name)
        for other in classes:
            if other == c:
                continue
            res.count("late_registration_L3")
            for a, b in ((cobj[c], cobj[other]), (cobj[other], cobj[c])):
                sub, sup = issubclass(a, b), issubclass(b, a)
                exp = Order.LESS if sub and not sup else Order.MORE if sup and not sub else Order.NONE if not sub else None
                got = safe(a, b)
                if exp is not None and got is not exp:
                    res.violation("L3-issubclass-after-late-registration", ["other-class"], spec,
                                  observed={"a": getattr(a, "__name__", str(a)), "b": getattr(b, "__name__", str(b)), "typeorder": str(got)},
                                  acceptable=exp.name)
    # L4
    for shape, an, bn in spec["generics"]:
        a, b = env.cls(an), env.cls(bn)
        base = safe(a, b)
        if isinstance(base, tuple):
            continue
        def own_merge(os_):
            os_ = set(os_)
            if os_ == {Order.SAME}:
                return Order.SAME
            if os_ <= {Order.LESS, Order.SAME}:
                return Order.LESS
            if os_ <= {Order.MORE, Order.SAME}:
                return Order.MORE
            return Order.NONE
        rev = safe(b, a)
        if isinstance(rev, tuple):
            continue
        mixed = own_merge([base, rev])
        pairs = {"list": (list[a], list[b], base), "dict": (dict[str, a], dict[str, b], base),
                 "nest": (list[list[a]], list[list[b]], base),
                 "dict2": (dict[a, b], dict[b, a], mixed), "tuple2": (tuple[a, b], tuple[b, a], mixed),
                 "tuple2n": (normalize_type(tuple[a, b], None), normalize_type(tuple[b, a], None), mixed),
                 # an ordered argument *followed* by identical ones
                 "dictL": (dict[a, str], dict[b, str], base), "tupleL": (tuple[a, str], tuple[b, str], base),
                 "tupleLn": (normalize_type(tuple[a, str, int], None), normalize_type(tuple[b, str, int], None), base),
                 "tuple3": (tuple[a, int, b], tuple[b, int, a], mixed)}[shape]
        res.ev()
        res.count("generic_L4")
        got = safe(pairs[0], pairs[1])
        if got is not pairs[2]:
            res.violation("L4-argument-wise", [shape], spec, observed={"a": str(pairs[0]), "b": str(pairs[1]), "got": str(got)},
                          acceptable=pairs[2].name)
        for g, o, exp in ((list[a], list, Order.LESS), (list, list[a], Order.MORE)):
            res.count("generic_L4")
            got = safe(g, o)
            if got is not exp:
                res.violation("L4-origin", [exp.name], spec, observed={"a": str(g), "b": str(o), "got": str(got)},
                              acceptable=exp.name)
    # L5
    for t, n in zip(types, names):
        if isinstance(t, str):
            continue
        h = t[0]
        parts, exp = [], None
        if h == "U":
            parts, exp = [T.tname(m) for m in t[1:]], Order.MORE
        elif h == "I":
            parts, exp = [T.tname(m) for m in t[1:]], Order.LESS
        elif h in ("D", "L", "T"):
            b = T.bound_of(t, env)
            if isinstance(b, str):
                parts, exp = [b], Order.LESS
        for pn in parts:
            pobj = norm.get(pn)
            if pobj is None:
                pobj = env.cls(pn) if pn in env.names else None
                if pobj is None:
                    continue
            res.ev()
            res.count("member_L5")
            o, o2 = safe(objs[n], pobj), safe(pobj, objs[n])
            if o is not exp or o2 is not exp.opposite():
                finding = None
                if h in ("U", "I") and not isinstance(o, tuple) and not isinstance(o2, tuple):
                    member = next(m for m in t[1:] if T.tname(m) == pn)
                    try:
                        p12, p21 = _f8_predict(t, member, {**full, pn: pobj}, env, norm)
                    except Exception:  # noqa: BLE001
                        p12 = p21 = None
                    if p12 is o and p21 is o2:
                        finding = "F8"
                res.violation("L5-member-law", [h, _shape(t), str(o), str(o2)], spec,
                              observed={"type": n, "part": pn, "typeorder(type,part)": str(o), "typeorder(part,type)": str(o2)},
                              acceptable=[exp.name, exp.opposite().name], finding=finding)

    # online: pairs the library itself compares during dispatch
    mon = Online()
    mon.install()
    try:
        rng = random.Random(spec["progseed"])
        for k in range(12):
            p = gen.gen_program(rng, hier=spec["hier"], dep=0.35, kinds=("leaf",), kw=0.0, npos=rng.choice([1, 2]))
            # sprinkle combinators the way C01's grammar does
            for m in p["methods"]:
                for q in m["pos"]:
                    if rng.random() < 0.25:
                        q["t"] = flatten(gen.gen_wide_tx(rng, [s["name"] for s in spec["hier"]], depth=1))
            try:
                prog = Program(p, env=env, tag="c12")
                cg = gen.CallGen(p)
                for _ in range(12):
                    prog.call(cg.call(rng, p_kw=0))
                prog.close()
            except Exception:  # noqa: BLE001
                res.count("online_program_errors")
    finally:
        mon.uninstall()
    res.count("pairs_seen_in_dispatch", mon.count)
    res.count("online_mirror_checked", mon.count)
    res.ev(mon.count)
    for t1, t2, r, r2 in mon.asym:
        k1, k2 = _kindsig(t1), _kindsig(t2)
        finding = None
        if not isinstance(r2, tuple):
            # mechanism of F8 read from the objects: both operands carry an answering rule and the two
            # rules disagree (the first operand's rule wins in each direction)
            try:
                h12 = t1.__type_order__(t2) if hasattr(t1, "__type_order__") else NotImplemented
                h21 = t2.__type_order__(t1) if hasattr(t2, "__type_order__") else NotImplemented
            except Exception:  # noqa: BLE001
                h12 = h21 = NotImplemented
            if h12 is not NotImplemented and h21 is not NotImplemented and h12 is r and h21 is r2:
                finding = "F8"
        res.violation("L1-mirror-online", [k1, k2, str(r), str(r2)], {"hier": spec["hier"], "pair": [str(t1), str(t2)]},
                      observed={"a": str(t1), "b": str(t2), "typeorder(a,b)": str(r), "typeorder(b,a)": str(r2)},
                      acceptable="mirror images", finding=finding)


def _shape(t):
    if isinstance(t, str):
        return "C"
    if t[0] in ("U", "I"):
        return t[0] + "(" + ",".join(sorted(_shape(m) for m in t[1:])) + ")"
    return t[0]
