import sys, threading, random, time, os, collections
import ovld
from h import *
import pin
LIBDIR = os.path.dirname(ovld.__file__)
mon = sys.monitoring; TOOL = 3; E = mon.events
class Sched:
    def __init__(self, rng, n, p):
        self.rng=rng; self.cv=threading.Condition(); self.current=None; self.alive=set(); self.n=n; self.started=0; self.p=p; self.trace=[]; self.steps=0
    def register(self, tid):
        with self.cv:
            self.alive.add(tid); self.started+=1
            if self.started==self.n: self.current=self.rng.choice(sorted(self.alive)); self.cv.notify_all()
            while self.started<self.n or self.current!=tid: self.cv.wait(5)
    def point(self, tid, where):
        with self.cv:
            self.steps+=1
            if len(self.alive)>1 and self.rng.random()<self.p:
                self.current=self.rng.choice(sorted(self.alive-{tid})); self.trace.append((tid,where)); self.cv.notify_all()
                while self.current!=tid:
                    if not self.cv.wait(10): raise RuntimeError("sched timeout")
    def finish(self, tid):
        with self.cv:
            self.alive.discard(tid)
            if self.current==tid and self.alive: self.current=self.rng.choice(sorted(self.alive))
            self.cv.notify_all()
tls=threading.local(); sched=None
NOY=(len,isinstance,type,str,tuple,id,hasattr,getattr,issubclass)
def lib(code): return code.co_filename.startswith(LIBDIR) or code.co_filename.startswith("<ovld")
def pt(code, where):
    tid=getattr(tls,"tid",None)
    if tid is None or sched is None: return
    sched.point(tid,(os.path.basename(code.co_filename),code.co_name,where))
def on_start(code, off):
    if not lib(code): return mon.DISABLE
    pt(code,"start")
def on_jump(code, off, dst):
    if not lib(code): return mon.DISABLE
    if dst<off: pt(code,("jump",off))
def on_call(code, off, fn, a0):
    if not lib(code): return
    if any(fn is x for x in NOY): return
    pt(code,("call",off))
mon.use_tool_id(TOOL,"sched")
mon.register_callback(TOOL,E.PY_START,on_start); mon.register_callback(TOOL,E.JUMP,on_jump); mon.register_callback(TOOL,E.CALL,on_call)
mon.set_events(TOOL,E.PY_START|E.JUMP|E.CALL)
class A: pass
class B(A): pass
class C(B): pass
P=["x"]
SPECS=[dict(mid=0,params=P,anns={"x":C},body=["return (0, call_next(x))"]),
       dict(mid=1,params=P,anns={"x":B},body=["return (1, call_next(x))"]),
       dict(mid=2,params=P,anns={"x":A},body=["return (2, call_next(x))"]),
       dict(mid=3,params=P,anns={"x":object},body=["return (3,)"]),
       dict(mid=4,params=P,anns={"x":int},body=["return (4, call_next(x))"]),
       dict(mid=5,params=P,anns={"x":int},body=["return (5, call_next(x))"],prio=1)]
def run(seed, p, args):
    global sched
    rng=random.Random(seed)
    o=build(SPECS); o.compile(); d=o.dispatch
    seq=[repr(build(SPECS)(a)) for a in args]
    sched=Sched(rng,len(args),p); res={}
    def worker(tid,a):
        tls.tid=tid; sched.register(tid)
        try:
            try: res[tid]=repr(d(a))
            except BaseException as e: res[tid]=f"EXC {type(e).__name__}: {str(e)[:50]}"
        finally: sched.finish(tid); tls.tid=None
    ts=[threading.Thread(target=worker,args=(i,a)) for i,a in enumerate(args)]
    for t in ts: t.start()
    for t in ts: t.join(30)
    s=sched; sched=None
    after=[repr(d(a)) for a in args]
    return [res.get(i)==seq[i] for i in range(len(args))], after==seq, res, s
for label,args in [("same-type",[C(),C()]),("diff-type",[C(),1]),("three",[C(),B(),1])]:
    for p in (0.02,0.1):
        c=collections.Counter(); bad=None; sigs=set(); t0=time.time()
        for seed in range(300):
            oks,aft,res,s=run(seed,p,args)
            c[(all(oks),aft)]+=1; sigs.add(hash(tuple(s.trace)))
            if not all(oks) and bad is None: bad=(seed,res,s.trace[-6:])
        print(label,p,dict(c),"distinct interleavings",len(sigs),"time",round(time.time()-t0,1))
        if bad: print("   first bad:",bad)
