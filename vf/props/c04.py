"""C04 - caching is invisible: a call's outcome never depends on earlier calls.

Monitor (differential, same method set on both sides, iteration order pinned on both): every call of a
random history is made on the long-lived function H and on a twin built from scratch (same classes,
same method sources re-executed, new Ovld) that has never been called; the two outcomes - the tree of
method ids entered through nested recurse / call_next / f.next, or the error kind - must be equal.
"""
from .. import boot  # noqa: F401
from .. import gen, tx as T
from ..observe import pin
from ..prog import Program, norm

ID = "C04"
LEVEL = "exploration"
RULE = ("cases = random programs (static / delegating / value-dependent flavours; 1-3 positions; bodies: leaf, "
        "call_next, f.next, recurse with other arguments, call_next with other arguments, raising) x histories of "
        "5-40 calls (repetitions, failing calls, nested calls with equal and different argument types); each call "
        "is compared with a never-called twin; distinct_nontrivial = distinct (program, call) pairs whose type tuple "
        "was reached earlier in the history only through a nested call or after a failing call")
ASSUMPTIONS = [
    "iteration order of the library's internal sets is pinned identically on both sides (order dependence is C06's matter)",
    "generated bodies bound their own recursion; interpreter faults (RecursionError) are C18's matter",
]
REPORT_COUNTERS = ["programs", "calls", "calls_failed", "calls_nested", "calls_repeat_types",
                   "first_seen_via_nested", "after_failing_call", "dependent_programs", "mode_variant", "mode_mixin", "mode_method"]


def plan(tier):
    n = 1200 if tier == "quick" else 30000
    return {"cases": n, "params": {}, "timeout_s": 1200 if tier == "quick" else 7200,
            "min": {"calls": 10_000, "calls_failed": 1_000, "calls_nested": 2_000, "first_seen_via_nested": 300}}


def gen_case(rng, params, idx):
    flavour = rng.choice(["static", "deleg", "deleg", "dep", "dep"])
    kinds = {"static": ("leaf", "leaf", "raise"),
             "deleg": ("leaf", "next", "next", "fnext", "rec", "nextalt"),
             "dep": ("leaf", "next", "fnext", "rec", "nextalt")}[flavour]
    hier, extras = None, ("MyInt", "int")
    if rng.random() < 0.3:
        # classes that are *virtual* subclasses of registered ABCs / protocols: their table entries differ from
        # their base classes' entries although they define nothing themselves
        hier = gen.gen_hierarchy(rng, rng.randint(3, 6), attrs=True)
        extras = ("MyInt", "int", "HasFly", "Shape", "Hook", "HasFly", "Shape")
    spec = gen.gen_program(rng, dep=0.3 if flavour == "dep" else 0.0, kinds=kinds, kw=0.15 if flavour == "static" else 0.0,
                           hier=hier, extras=extras)
    vals = gen.values_for(spec["hier"])
    if flavour != "dep":
        vals = [v for v in vals if v[0] == "i" or v in (["v", 1], ["mi", 1], ["v", "a"], ["v", None])]
    cg = gen.CallGen(spec, vals)
    base = [cg.call(rng) for _ in range(rng.randint(3, 10))]
    hist = []
    for _ in range(rng.randint(5, 40)):
        c = rng.choice(base) if rng.random() < 0.6 else cg.call(rng)
        hist.append(c)
    if flavour == "dep" and rng.random() < 0.7:
        # class predicates inside value-dependent combinations, and calls during which a user predicate fails once
        # (a transient fault): the same call later must still equal the call on a fresh function
        for m in rng.sample(spec["methods"], min(2, len(spec["methods"]))):
            p0 = m["pos"][rng.randrange(len(m["pos"]))]
            p0["t"] = rng.choice([["U", ["L", 0], ["CC", "isk"]], ["U", ["CC", "nobase"], ["D", "int", "even"]],
                                  ["I", ["CC", "isk"], ["D", "object", "truthy"]], ["U", ["L", 1, 2], ["CC", "hasfly"]]])
        for k in rng.sample(range(len(hist)), min(6, len(hist))):
            hist[k] = dict(hist[k], fault=rng.randint(1, 2))
        spec["transient_faults"] = True
    spec["history"] = hist
    spec["flavour"] = flavour
    # the function is sometimes a variant, a mixin combination or a method with self (caches behind __get__)
    mode = rng.choice(["plain", "plain", "plain", "variant", "mixin", "method"])
    if mode != "plain" and not any(m["kind"] == "fnext" for m in spec["methods"]):
        seen, ms = set(), []
        for m in spec["methods"]:        # identical signatures on different nodes replace instead of stacking
            k = (tuple(T.tname(p["t"]) for p in m["pos"]), tuple(sorted((q["n"], T.tname(q["t"])) for q in m.get("kw", []))), m["prio"])
            if k not in seen:
                seen.add(k)
                ms.append(m)
        spec["methods"] = ms
        spec["mode"] = mode
        spec["split"] = rng.randint(1, max(1, len(ms) - 1))
    return spec


def _types(call):
    return [T.vname(v) if v[0] != "v" else type(v[1]).__name__ for v in call["pos"]]


def check_case(spec, res):
    pin()
    env = T.Env(spec["hier"])
    try:
        H = Program(spec, env=env, tag="c04H")
    except Exception as e:  # noqa: BLE001
        res.count("unbuildable")
        return
    res.count("programs")
    res.count("mode_" + spec.get("mode", "plain"))
    if spec["flavour"] == "dep":
        res.count("dependent_programs")
    res.sample({k: spec[k] for k in ("hier", "methods", "npos", "flavour")} | {"history": spec["history"][:4]}, spec["flavour"])
    seen_direct, seen_nested = set(), set()
    failed_before = False
    for i, call in enumerate(spec["history"]):
        if call.get("fault"):
            # the k-th consultation of a user predicate during this call raises (once): whatever this call does, the
            # later calls must not be affected
            env.predlog.fault_at, env.predlog.fault_count = call["fault"], 0
            H.call(call)
            env.predlog.fault_at = None
            res.count("calls_with_transient_predicate_fault")
            continue
        twin = Program(spec, env=env, tag="c04T")
        a = H.call(call)
        b = twin.call(call)
        twin.close()
        res.ev()
        res.count("calls")
        tkey = tuple(_types(call))
        nested = len(a[1]) > 1 if a[0] == "ran" else len(a[-1]) > 1
        if a[0] != "ran":
            res.count("calls_failed")
        if nested:
            res.count("calls_nested")
        if tkey in seen_direct:
            res.count("calls_repeat_types")
        altkey = tuple(T.vname(v) if v[0] != "v" else type(v[1]).__name__ for v in call["alt"][:len(call["pos"])])
        if tkey not in seen_direct and tkey in seen_nested:
            res.count("first_seen_via_nested")
            res.nontrivial([_progkey(spec), tkey, "nested-first"])
        if failed_before and tkey not in seen_direct:
            res.count("after_failing_call")
            res.nontrivial([_progkey(spec), tkey, "after-failure"])
        seen_direct.add(tkey)
        if nested:
            seen_nested.add(altkey)
            seen_nested.add(tkey)
        if a[0] != "ran":
            failed_before = True
        if norm(a) != norm(b):
            res.violation("history-vs-fresh-twin", [a[0], b[0], spec["flavour"]], spec,
                          observed={"call_index": i, "call": call, "long_lived": norm(a), "fresh_twin": norm(b)},
                          acceptable="equal outcomes")
            break
    H.close()


def _progkey(spec):
    return [[[T.tname(p["t"]) for p in m["pos"]], m.get("prio", 0), m.get("kind")] for m in spec["methods"]]
