"""Known findings: committed list + defect-model classifiers.

known_findings.json is read-only at run time.  An ``open`` finding lets violations pass that its
classifier attributes to it (the classifier must *predict the observed wrong outcome* from a model
of the defect, not merely recognise the input shape); a ``fixed: ...`` entry suppresses nothing.
"""
import json
import os

HERE = os.path.dirname(os.path.dirname(os.path.abspath(__file__)))
PATH = os.path.join(HERE, "known_findings.json")


def load():
    with open(PATH) as f:
        return json.load(f)["findings"]


def open_for(prop):
    return [f for f in load() if prop in f["properties"] and f["status"] == "open"]


def is_open(fid, prop):
    return any(f["id"] == fid for f in open_for(prop))


def witnesses_for(prop):
    for f in load():
        w = (f.get("witnesses") or {}).get(prop)
        if w is None:
            continue
        status = "open" if f["status"] == "open" else "fixed"
        ws = w if isinstance(w, list) and w and isinstance(w[0], dict) and "__multi__" in w[0] else [w]
        for spec in ws:
            yield f["id"], status, spec


# =============================================================================================
# F1 / F14 / F16 defect model: a frozen transcription of the pinned resolution algorithm on the
# *static* fragment (plain classes): per-position topological layer index as specificity,
# `>=` on layer indices, ranks formed against the head candidate only.  It exists to *predict the
# wrong answer*: a disagreement with the reference model is attributed to F1 only if the observed
# outcome equals this prediction **and** the reference model says "ambiguous" (the statement's rule
# leaves the applicable methods unordered while layer indices order them).
# =============================================================================================
def _layers(cls, avail_names, env):
    """levels as TypeMap.__missing__ computes them: {name: level}, most general = 0."""
    avail = [n for n in avail_names if issubclass(cls, env.cls(n))]
    # graphlib batches: a node is ready when all more specific nodes are done
    deps = {n: set() for n in avail}
    for i, a in enumerate(avail):
        for b in avail[i + 1:]:
            ca, cb = env.cls(a), env.cls(b)
            if ca is cb:
                continue
            if issubclass(ca, cb):
                deps[b].add(a)
            elif issubclass(cb, ca):
                deps[a].add(b)
    batches, done = [], set()
    while len(done) < len(avail):
        ready = [n for n in avail if n not in done and deps[n] <= done]
        batches.append(ready)
        done |= set(ready)
    nb = len(batches)
    return {n: nb - 1 - k for k, batch in enumerate(batches) for n in batch}


def frozen_static_ranks(methods, call, env, index=None, tiebreaks=None):
    """Ranks (list of lists of mids) the pinned algorithm forms for this call, candidate tie order
    pinned by mid.  Static annotations (class names) only; returns None outside that fragment."""
    index = index or {m["mid"]: i for i, m in enumerate(methods)}
    from . import tx as T
    if tiebreaks is None:
        # re-registering an identical signature pushes the older one down (tiebreak -1, -2, ...)
        from .refmodel import sig_identical
        tiebreaks = {}
        for i, m in enumerate(methods):
            later = [o for o in methods[i + 1:] if o.get("prio", 0) == m.get("prio", 0) and sig_identical(m, o)]
            tiebreaks[m["mid"]] = -len(later)
    pos_vals = [T.value(v, env) for v in call.get("pos", [])]
    kw_vals = {k: T.value(v, env) for k, v in (call.get("kw") or {}).items()}
    npos, names = len(pos_vals), set(kw_vals)
    keys = list(range(npos)) + sorted(kw_vals)

    def tx_at(m, key):
        if isinstance(key, int):
            return m["pos"][key].get("t") or "object" if key < len(m["pos"]) else None
        for k in m.get("kw", []):
            if k["n"] == key:
                return k.get("t") or "object"
        return None

    for m in methods:
        for p in m.get("pos", []) + m.get("kw", []):
            if p.get("t") is not None and not isinstance(p["t"], str):
                return None
    cands = None
    spec = {}
    for key in keys:
        v = pos_vals[key] if isinstance(key, int) else kw_vals[key]
        registered = sorted({tx_at(m, key) for m in methods if tx_at(m, key) is not None})
        lv = _layers(type(v), registered, env)
        here = {}
        for m in methods:
            t = tx_at(m, key)
            if t is None or t not in lv:
                continue
            req = sum(1 for p in m["pos"] if not p.get("opt"))
            if not (req <= npos <= len(m["pos"])):
                continue
            if {k["n"] for k in m.get("kw", []) if k.get("req")} - names:
                continue
            here[m["mid"]] = lv[t]
        cands = set(here) if cands is None else cands & set(here)
        for c in cands:
            spec.setdefault(c, []).append(here[c])
    if cands is None:
        return None
    by_mid = {m["mid"]: m for m in methods}
    cl = [{"mid": c, "prio": by_mid[c].get("prio", 0), "spec": tuple(spec[c]), "tb": tiebreaks.get(c, 0)}
          for c in sorted(cands)]
    cl.sort(key=lambda c: (c["prio"], sum(c["spec"]), c["tb"]), reverse=True)

    def dominates(a, b):
        if a["prio"] > b["prio"]:
            return True
        if a["spec"] != b["spec"]:
            return all(x >= y for x, y in zip(a["spec"], b["spec"]))
        return a["tb"] > b["tb"]

    ranks, processed = [], set()

    def pull(cs):
        cs = [c for c in cs if c["mid"] not in processed]
        if not cs:
            return
        rv = [cs[0]]
        for c2 in cs[1:]:
            if not dominates(cs[0], c2):
                processed.add(c2["mid"])
                rv.append(c2)
        ranks.append([c["mid"] for c in rv])
        pull(cs[1:])

    pull(cl)
    return ranks


def frozen_static_outcome(methods, call, env, tiebreaks=None):
    r = frozen_static_ranks(methods, call, env, tiebreaks=tiebreaks)
    if r is None:
        return None
    if not r:
        return ("none",)
    if len(r[0]) == 1:
        return ("win", r[0][0])
    return ("amb", sorted(r[0]))
