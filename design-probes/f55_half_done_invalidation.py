"""F55 (C18): an interrupt between the two steps of Ovld._invalidate (flag cleared, generated entry point still in
place) during a registration; before the fix every later register / unregister was silently ignored by the function."""
import sys
from ovld import ovld
import ovld.core as core

@ovld
def f(x: object):
    return "object"

assert f(1) == "object"

def g(x: int):
    return "int"

fired = []
def tracer(frame, event, arg):
    if event == "call" and frame.f_code.co_name == "_invalidate":
        def local(frame, event, arg):
            if event == "line" and not fired and frame.f_lineno == frame.f_code.co_firstlineno + 3:
                fired.append(1)
                raise KeyboardInterrupt
            return local
        return local
    return tracer
sys.settrace(tracer)
try:
    f.register(g)
except KeyboardInterrupt:
    pass
sys.settrace(None)
assert fired and f(1) == "object"
def h(x: str):
    return "str"
f.register(h)
assert f("a") == "str", f("a")
print("ok")
