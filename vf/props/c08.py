"""C08 - recurse always re-enters the overloaded function that was actually called.

Monitor: result trees.  Every walker method returns a structure tagged with its own method id and
maps ``recurse`` (or its own function's *name*) over the children; every leaf returns ('leaf', mid).
A reference interpreter (vf/graph.py:Graph.ev) evaluates the same nested input on the *model* of the
node that was called: resolution on the node's effective table (parents overlaid in mixin order, own
last), walkers recursing into the **same node**; a body that names its own function re-enters that
function (ordinary Python scoping, also when inherited by a variant).  Any difference between the real
tree and the model tree is an alarm: a recurse that escaped to the parent shows up as a parent-table
leaf/walker id under a child-table root.
"""
from .. import boot  # noqa: F401
from .. import tx as T
from ..graph import Graph
from ..observe import VF, pin

ID = "C08"
LEVEL = "exploration"
RULE = ("cases = random derivation graphs (2-8 nodes; Ovld(mixins=...), copy(mixins=...), variant, add_mixins; "
        "depth <= 4, fan-in <= 3) with walker methods (list / tuple / dict, via recurse or via the function's own "
        "name) and leaf methods placed on random nodes x 8 nested inputs x every node called twice in shuffled "
        "order; distinct_nontrivial = distinct graphs (shape + method placement) in which some node overrides "
        "a leaf or walker under a walker it inherits and depth >= 2")
ASSUMPTIONS = [
    "method parameter types are builtin classes in single-inheritance chains, so the reference resolution "
    "(priority, then most specific class) is unambiguous; resolution itself is C02's business",
    "a method that names its own function follows ordinary Python scoping when inherited (statement, last sentence)",
]
REPORT_COUNTERS = ["graphs", "node_calls", "trees_compared", "graphs_depth2_inherited_walker",
                   "override_under_inherited_walker", "selfname_walkers", "recurse_sites_run", "late_modifications_applied", "trees_compared_after_late_change",
                   "registrations_made_during_a_call", "registrations_failed_and_undone_during_a_call",
                   "calls_while_the_function_could_not_be_built"]

INPUTS = [
    ["v", 1], ["v", "s"],
    ["l", ["v", 1], ["v", "s"], ["l", ["v", 2.5], ["t", ["v", 1], ["l", ["v", 3]]]]],
    ["t", ["v", 1], ["t", ["v", "s"]]],
    ["d", [["v", "v"], ["l", ["v", 1], ["d", [["v", "v"], ["v", "s"]]]]]],
    ["l", ["l", ["l"]]],
    ["l", ["d", [["v", "v"], ["t", ["v", 2.5]]]], ["v", True]],
    ["t", ["l", ["v", b"x"], ["t"]], ["v", None]],
    # classes among the elements (looked up as type[cls] once a type[...] method exists)
    ["l", ["c", "int"], ["v", 1], ["l", ["c", "bool"], ["c", "str"]]],
    ["t", ["c", "bool"], ["l", ["c", "int"]]],
]


def plan(tier):
    n = 1200 if tier == "quick" else 24000
    return {"cases": n, "params": {}, "timeout_s": 900 if tier == "quick" else 3600,
            "min": {"trees_compared": 20_000, "graphs_depth2_inherited_walker": 300,
                    "override_under_inherited_walker": 300, "selfname_walkers": 100}}


def gen_case(rng, params, idx):
    ops = []
    nn = rng.randint(2, 8)
    mid = 0
    parents_of = {}
    for i in range(nn):
        if i == 0 or rng.random() < 0.12:
            ops.append(["new"])
            parents_of[i] = []
        else:
            k = min(rng.choice([1, 1, 1, 2, 3]), i)
            ps = rng.sample(range(i), k)
            lb = rng.random() < 0.3
            r = rng.random()
            if r < 0.4:
                ops.append(["mixnew", ps, lb])
            elif r < 0.8:
                ops.append(["copy", ps[0], ps[1:], lb])
            else:
                ms = _gen_method(rng, mid)
                mid += 1
                ops.append(["variant", ps[0], ms, lb])
                ps = ps[:1]
            parents_of[i] = ps
        for _ in range(rng.randint(0, 3)):
            ops.append(["register", i, _gen_method(rng, mid)])
            mid += 1
    # late add_mixins on not-yet-used nodes (cycle-free: only older nodes as mixins)
    for _ in range(rng.choice([0, 0, 1, 2])):
        n = rng.randrange(nn)
        if n > 0:
            q = rng.randrange(n)
            if q not in parents_of[n]:
                ops.append(["addmixin", n, q])
                parents_of[n].append(q)
    order = list(range(nn)) * 2
    rng.shuffle(order)
    # second phase: after every node has been called, methods are registered late (directly where still allowed,
    # through linkback parents, through add_mixins) and every node is called again
    late = []
    for _ in range(rng.choice([0, 1, 2, 3])):
        if rng.random() < 0.8:
            late.append(["register", rng.randrange(nn), _gen_method(rng, mid)])
            mid += 1
        else:
            n, q = rng.randrange(nn), rng.randrange(nn)
            if n != q:
                late.append(["addmixin_late", n, q])
    order2 = list(range(nn))
    rng.shuffle(order2)
    return {"ops": ops, "order": order, "nnodes": nn, "late": late, "order2": order2}


def _gen_method(rng, mid):
    kind = rng.choice(["walk_list", "map_list", "deep_list", "nest_list", "walk_tuple", "leaf", "leaf", "leaf", "wrap", "self_list",
                       "ondemand", "acc_list", "both_list"])
    t = {"walk_list": "list", "acc_list": "list", "both_list": "list", "map_list": "list", "deep_list": "list", "nest_list": "list", "self_list": "list", "walk_tuple": "tuple",
         "wrap": "dict", "ondemand": "list"}.get(kind)
    if t is None:
        t = rng.choice(["int", "str", "float", "bytes", "bool", "object", "object", "type[int]", "type[object]"])
    ms = {"mid": mid, "t": t, "kind": kind, "prio": 0}
    if kind == "ondemand":
        # the method it registers on the function being called, the first time it runs
        ms["extra"] = {"mid": mid + 5000, "t": rng.choice(["int", "str", "float", "bytes", "bool"]), "kind": "leaf", "prio": 0}
        if rng.random() < 0.35:
            ms["extra"]["bad"] = True      # the registration fails to build; it is caught and undone, the walk goes on
    return ms


def check_case(spec, res):
    pin()
    env = T.Env([])
    vf = VF()
    g = Graph(env, vf, tag="c08")
    for op in spec["ops"]:
        if g.apply(op) != "ok":
            raise AssertionError(f"operation refused before any use: {op}")
    res.count("graphs")
    res.sample(spec)
    # structure facts for the evidence
    def depth(n):
        return 0 if not n.parents else 1 + max(depth(p) for p in n.parents)
    walkers = {"walk_list", "acc_list", "both_list", "map_list", "deep_list", "nest_list", "walk_tuple", "wrap", "self_list", "ondemand"}
    nontrivial = False
    for n in g.nodes:
        inh = {}
        for p in n.parents:
            inh.update(p.table())
        inh_walk = any(g.mspecs[st[-1][0]]["kind"] in walkers for st in inh.values())
        if depth(n) >= 2 and inh_walk:
            res.count("graphs_depth2_inherited_walker")
        own_sigs = [s for s in n.own_order if n.own.get(s)]
        if inh_walk and own_sigs:
            res.count("override_under_inherited_walker")
            if depth(n) >= 2:
                nontrivial = True
    res.count("selfname_walkers", sum(1 for m in g.mspecs.values() if m["kind"] in ("self_list", "both_list")))
    if nontrivial:
        shape = [[op[0]] + [x for x in op[1:] if not isinstance(x, dict)] +
                 [[x["t"], x["kind"]] for x in op[1:] if isinstance(x, dict)] for op in spec["ops"]]
        res.nontrivial(shape)
    inputs = [T.value(v, env) for v in INPUTS]
    for i in spec["order"]:
        n = g.nodes[i]
        res.count("node_calls")
        for vx, v in zip(INPUTS, inputs):
            res.ev()
            got, exp = g.call(n, v)
            res.count("trees_compared")
            res.count("recurse_sites_run", max(0, len(vf.log) - 1))
            if got != exp:
                res.violation("tree-vs-reference", [_diffkind(got, exp)], spec,
                              observed={"node": i, "input": T.vname(vx), "got": repr(got)[:200]},
                              acceptable=repr(exp)[:200])
    # phase 2: late modifications on functions already in use, then everything is called again
    applied = 0
    for op in spec.get("late", []):
        if op[0] == "addmixin_late":
            n, q = g.nodes[op[1]], g.nodes[op[2]]
            if q in n.parents or n in q.ancestors() or n is q:
                continue
            op = ["addmixin", op[1], op[2]]
        try:
            st = g.apply(op)
        except Exception as e:  # noqa: BLE001
            res.violation("late-operation-crashed", [op[0], type(e).__name__], spec,
                          observed={"op": [x if not isinstance(x, dict) else x["kind"] for x in op], "error": f"{type(e).__name__}: {e}"[:160]},
                          acceptable="succeeds or refuses with the lock error")
            g.cleanup()
            return
        if st == "ok":
            applied += 1
            res.count("late_modifications_applied")
            # a modification that was accepted must be visible wherever the model says it is; nodes that derive
            # from the modified one without linkback were locked, so an accepted change implies propagation
    if applied:
        for i in spec.get("order2", []):
            n = g.nodes[i]
            for vx, v in zip(INPUTS, inputs):
                res.ev()
                got, exp = g.call(n, v)
                res.count("trees_compared_after_late_change")
                if got != exp:
                    res.violation("tree-vs-reference-after-late-change", [_diffkind(got, exp)], spec,
                                  observed={"node": i, "input": T.vname(vx), "got": repr(got)[:200]},
                                  acceptable=repr(exp)[:200])
    res.count("registrations_made_during_a_call", g.ondemand_applied)
    res.count("registrations_failed_and_undone_during_a_call", g.ondemand_failed)
    res.count("calls_while_the_function_could_not_be_built", g.ondemand_retried)
    g.cleanup()


def _diffkind(got, exp):
    if got[0] != exp[0]:
        return [got[0], exp[0]]
    return "different-tree"
