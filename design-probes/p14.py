from ovld import Ovld, call_next, recurse
import traceback
def show(label, fn):
    try: print(label, "->", fn())
    except BaseException as e:
        tb = traceback.extract_tb(e.__traceback__)
        print(label, "-> EXC", type(e).__name__, str(e).splitlines()[0][:100], [(f.name, f.lineno) for f in tb][-2:])
log=[]
def tick(n, v):
    log.append(n); return v

def mk(body_fn, *others):
    o = Ovld()
    o.register(body_fn)
    @o.register
    def base(x: int): return ("int", x)
    @o.register
    def base2(x: int, y: int): return ("int2", x, y)
    @o.register
    def basek(x: int, *, k: int): return ("intk", x, k)
    @o.register
    def baseo(x: object): return ("obj", x)
    return o

def c1(xs: list): return [recurse(x) for x in tick("iter", xs) if tick("cond", True)]
def c2(xs: list): return recurse(tick(1, xs[0]), tick(2, xs[1]))
def c3(xs: list): return recurse(tick(1, xs[0]), k=tick(2, xs[1]))
def c4(xs: list): return recurse(*xs)
def c5(xs: list): return recurse(xs[0], **{"k": xs[1]})
def c6(xs: list): return (lambda q=recurse(xs[0]): q)()
def c7(xs: list): return f"{recurse(xs[0])!r:>20}"
def c8(xs: list):
    if (y := recurse(xs[0])): return y
def c9(xs: list):
    def inner(z): return recurse(z)
    return [inner(x) for x in xs]
def c10(xs: list):
    try: return recurse(xs[0])
    finally: log.append("fin")
def c11(xs: list):
    yield recurse(xs[0]); yield recurse(xs[1])
def c12(xs: list): return recurse(k=tick(1, xs[1]), x=tick(2, xs[0]))
def c13(xs: list): return recurse(recurse(xs[0])[1])
def c14(xs: list): return {recurse(x)[1]: recurse(x) for x in xs}
def c15(xs: list): return [y for x in xs for y in recurse(x)]
def c16(xs: list, d=recurse): return d
def c17(xs: list): return recurse(xs[0]) if recurse(xs[1]) else None
def c18(xs: list): return list(map(recurse, xs))
def c19(xs: list): return recurse(tick(1,xs[0]), *[tick(2, xs[1])])
def c20(xs: list):
    r = 1/0
    return recurse(r)
for fn in [c1,c2,c3,c4,c5,c6,c7,c8,c9,c10,c11,c12,c13,c14,c15,c16,c17,c18,c19,c20]:
    log.clear()
    o = mk(fn)
    def run():
        r = o([1,2])
        if hasattr(r, "__next__"): r = list(r)
        return r
    show(fn.__name__, run); print("   log", log)
