from typing import Literal
from ovld import Ovld, call_next, recurse, class_check, parametrized_class_check, Dependent
from ovld.types import HasMethod, Union
from ovld.mro import TypeRelationship, Order
def show(label, fn):
    try: print(label, "->", fn())
    except BaseException as e: print(label, "-> EXC", type(e).__name__, str(e).splitlines()[0][:120])
cnt = {"pred":0, "order":0}
@class_check
def Small(cls):
    cnt["pred"] += 1
    return cls.__name__ in ("int", "bool", "float")
class Hooked(type):
    def __type_order__(cls, other):
        cnt["order"] += 1
        return NotImplemented
    def __is_supertype__(cls, other):
        cnt["order"] += 1
        return NotImplemented
class H(metaclass=Hooked): pass
class H2(H): pass
o = Ovld()
@o.register
def f(x: Small): return ("small", call_next(x))
@o.register
def f(x: H): return "H"
@o.register
def f(x: object): return "obj"
@o.register
def f(xs: list): return [recurse(x) for x in xs]
for i in range(3):
    before = dict(cnt)
    r = o([1, 2.0, H2(), "s", True])
    print(i, r, {k: cnt[k]-before[k] for k in cnt})
before = dict(cnt); o.resolve(1); print("resolve", {k: cnt[k]-before[k] for k in cnt})

# class_check inside union with dependent
o2 = Ovld()
@o2.register
def g(x: HasMethod["__len__"] | Literal[0]): return "len|0"
@o2.register
def g(x: object): return "obj"
show("g([])", lambda: o2([]))
show("g(0)", lambda: o2(0))
show("g(1)", lambda: o2(1))
