"""F56 (C18): the build of a plain copy fails because of an invalid method in its parent; before the fix the parent
was locked by that failed build and the offender could not be unregistered any more."""
from ovld import ovld, call_next
from ovld.utils import UsageError
@ovld
def p(x: object):
    return "object"
def bad(x: float):
    nxt = call_next
    return nxt(x)
p.register(bad)
c = p.copy()
@c.register
def c(x: int):
    return "int"
try:
    c(1); raise SystemExit("no error")
except UsageError:
    pass
p.unregister(bad)
assert (c(1), c(1.5)) == ("int", "object")
try:
    p.register(bad); raise SystemExit("parent not locked after the copy was put to use")
except Exception as e:
    assert "locked" in str(e), e
print("ok")
