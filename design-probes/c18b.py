import sys, collections
from h import *
import pin
class A: pass
class B(A): pass
P=["x"]
SPECS=[dict(mid=0,params=P,anns={"x":B},body=["return (0, call_next(x))"]),
       dict(mid=1,params=P,anns={"x":A},body=["return (1, call_next(x))"]),
       dict(mid=2,params=P,anns={"x":object},body=["return (2,)"]),
       dict(mid=3,params=P,anns={"x":int},body=["return (3,)"])]
sys.setrecursionlimit(400)
def at_depth(d, fn):
    if d <= 0: return fn()
    return at_depth(d - 1, fn)
ref = [repr(build(SPECS)(v)) for v in (B(), A(), 1, "s")]
res = collections.Counter(); ex = {}
for scenario in ("first-call", "cache-miss"):
    for d in range(200, 400):
        o = build(SPECS); disp = o.dispatch
        if scenario == "cache-miss": disp(1)
        try: at_depth(d, lambda: disp(B())); first = "ok"
        except RecursionError: first = "RecursionError"
        except Exception as e: first = type(e).__name__
        probes = []
        for v in (B(), A(), 1, "s"):
            try: probes.append(repr(disp(v)))
            except Exception as e: probes.append("EXC " + type(e).__name__ + ": " + str(e)[:40])
        key = (scenario, first, tuple(p == r for p, r in zip(probes, ref)))
        res[key] += 1; ex.setdefault(key, (d, probes))
for k, v in sorted(res.items(), key=str): print(v, k, ex[k] if not all(k[2]) else "")
