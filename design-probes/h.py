"""throw-away mini harness for design probes"""
import random, linecache, itertools, collections
import ovld
from ovld import Ovld
LOG = []
class VF:
    def enter(self, mid, loc): LOG.append(mid)
_cnt = itertools.count()
def gen_hierarchy(rng, n):
    classes = []
    for i in range(n):
        for _ in range(10):
            k = rng.choice([0,1,1,2,2,3]) if classes else 0
            bases = tuple(rng.sample(classes, min(k, len(classes))))
            bases = tuple(b for b in bases if not any(o is not b and issubclass(o, b) for o in bases))
            try:
                c = type(f"K{i}", bases or (object,), {}); classes.append(c); break
            except TypeError: continue
    return classes
def make_fn(mid, params, anns, body):
    """params: list of names; anns: dict name->type; body: source lines (list)"""
    fname = f"<vf:{next(_cnt)}>"
    src = f"def m{mid}({', '.join(params)}):\n    __vf.enter({mid}, locals())\n" + "".join(f"    {l}\n" for l in body)
    linecache.cache[fname] = (len(src), None, src.splitlines(True), fname)
    ns = {"__vf": VF(), "call_next": ovld.call_next, "recurse": ovld.recurse, "__name__": "vfcase"}
    exec(compile(src, fname, "exec"), ns)
    fn = ns[f"m{mid}"]; fn.__annotations__ = dict(anns)
    return fn
def build(specs, only=None):
    """specs: list of dict(mid, params, anns, body, prio)"""
    o = Ovld()
    for s in specs:
        if only is not None and s["mid"] not in only: continue
        o.register(make_fn(s["mid"], s["params"], s["anns"], s["body"]), priority=s.get("prio", 0))
    return o
def outcome(fn):
    LOG.clear()
    try:
        r = fn(); return ("ran", tuple(LOG), repr(r))
    except TypeError as e:
        s = str(e)
        if "Ambiguous" in s: return ("amb", tuple(LOG))
        if "No method" in s: return ("none", tuple(LOG))
        return ("typeerror", tuple(LOG), s[:80])
    except Exception as e:
        return ("exc", tuple(LOG), type(e).__name__, str(e)[:80])
