from ovld import Ovld

P = Ovld()
@P.register
def _(a0: int, a1: int):
    return "int,int"
@P.register
def _(a0: object, a1: object):
    return "object,object"

C1 = P.copy(linkback=True)
@C1.register
def _(c1: str, zz: str):          # C1's own method: c1 is its first parameter
    return "C1 own"
C2 = P.copy(linkback=True)

print("warm:", C1(1, 2), C2(1, 2), C2(1.5, 2))

err = None
try:
    @P.register
    def _(a0: float, c1: int):     # fine for P and C2; in C1 the name c1 now sits at two positions
        return "float,int"
except TypeError as e:
    err = e
print("register raised:", type(err).__name__ if err else None)
print("P :", P(1.5, 2))
got = C2(1.5, 2)
print("C2:", got)
fresh = Ovld()
for sig, fn in C2.defns.items():
    fresh.register(fn)
print("fresh function from C2's methods:", fresh(1.5, 2))
print("PASS" if got == fresh(1.5, 2) else "FAIL")
