"""F49 (C15): the tuple spelling (A, None) of A | None.  Before the fix f(None) ran the object method and f(A()) raised
TypeError: issubclass() arg 1 must be a class."""
from ovld import ovld


class A:
    pass


@ovld
def f(x: (A, None)):
    return "opt"


@ovld
def f(x: object):
    return "obj"


@ovld
def g(x: None):
    return "none"


@ovld
def g(x: object):
    return "obj"


assert [f(A()), f(None), f(1)] == ["opt", "opt", "obj"]
assert [g(None), g(1)] == ["none", "obj"]
print("ok")
