import time, sys, collections
import ovld, ovld.mro as mro, ovld.types as types, ovld.dependent as dep, ovld.typemap as tm
from ovld.mro import Order
_orig = mro.typeorder
SEEN = {}; ASYM = []; busy = [False]
def monitored(t1, t2):
    r = _orig(t1, t2)
    if not busy[0]:
        key = (id(t1), id(t2))
        if key not in SEEN:
            busy[0] = True
            try:
                try: r2 = _orig(t2, t1)
                except Exception as e: r2 = ("EXC", type(e).__name__)
            finally: busy[0] = False
            SEEN[key] = (t1, t2)       # keep refs alive so ids stay unique
            if not isinstance(r2, tuple) and r.opposite() is not r2: ASYM.append((t1, t2, r.name, r2.name))
    return r
# recursion inside typeorder itself resolves the global name `typeorder` in ovld.mro -> patch there too
for m in (mro, types, dep): m.typeorder = monitored
print("bound in sort_types globals:", mro.sort_types.__globals__["typeorder"] is monitored)
# run a dispatch workload: reuse the c10 prototype generator
sys.argv = ["x", "0"]
import c10
t0 = time.time()
for seed in range(300): c10.run(seed)
print("workload s", round(time.time() - t0, 2), "pairs seen", len(SEEN), "asymmetric", len(ASYM))
kinds = collections.Counter((type(a).__name__, type(b).__name__) for a, b, *_ in ASYM)
print(kinds.most_common(5)); print([(str(a), str(b), x, y) for a, b, x, y in ASYM[:4]])
