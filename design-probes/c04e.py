from typing import Literal
from h import *
import pin
import collections, sys
class MyInt(int): pass
P=["a0","a1"]
specs=[
 dict(mid=0,params=P,anns={"a0":Literal[2],"a1":object},body=["return (0, call_next(a0, a1))"]),
 dict(mid=1,params=P,anns={"a0":Literal[1],"a1":MyInt},body=["return (1,)"]),
 dict(mid=2,params=P,anns={"a0":object,"a1":MyInt},body=["return (2, call_next(a0, a1))"],prio=1),
 dict(mid=3,params=P,anns={"a0":object,"a1":Literal[2]},body=["return (3,)"]),
]
c=collections.Counter()
junk=[]
for i in range(200):
    junk.append([object() for _ in range(i % 7)])
    o=build(specs)
    c[outcome(lambda: o(2, MyInt(2)))[:2]]+=1
print(c)
o=build(specs); o(2,MyInt(2)) if False else None
try: o(2,MyInt(2))
except TypeError as e: print(str(e)[:400])
o.display_resolution(2, MyInt(2))
