"""Regenerate /verif/seeded/README.md from the meta.json files:  /venv/bin/python -m vf.seedreadme"""
import glob
import json
import os

HERE = os.path.dirname(os.path.dirname(os.path.abspath(__file__)))


def main():
    rows = []
    for d in sorted(glob.glob(os.path.join(HERE, "seeded", "*", "meta.json"))):
        m = json.load(open(d))
        name = os.path.basename(os.path.dirname(d))
        own = m["property"]
        caught = m.get("caught_by") or []
        rows.append((name, own, m["needs_to_manifest"], caught, m["confirmed"].get("repository_tests_with_change", "")))
    out = ["# Seeded breaking changes", "",
           "Each directory holds a change to breuleux/ovld written by an independent sub-agent that was given only the text of one",
           "property and a scratch worktree (nothing from /verif): `patch.diff`, the agent's demonstration `demo.py` (passes on the",
           "unchanged tree, fails with the change), its `notes.md`, and `meta.json` (what was confirmed here and which checks report",
           "a violation).  `python -m vf.seedaccept` re-confirms a change and rewrites its meta.json; `python -m vf.seedcheck <dir>`",
           "runs checks against it.  None of these changes is ever applied to /repo: the checks are pointed at a scratch copy through",
           "`$OVLD_SRC`.", "",
           "| change | property | needs, to manifest | caught by (quick tier) | own check catches it | suite with change |",
           "|---|---|---|---|---|---|"]
    for name, own, needs, caught, tests in rows:
        out.append(f"| {name} | {own} | {needs} | {', '.join(caught) or '**none**'} | {'yes' if own in caught else 'no'} | {tests} |")
    out.append("")
    n_own = sum(1 for r in rows if r[1] in r[3])
    n_any = sum(1 for r in rows if r[3])
    out.append(f"{len(rows)} changes kept; {n_any} caught by at least one check, {n_own} by the check of the property they were written against.")
    out.append("")
    with open(os.path.join(HERE, "seeded", "README.md"), "w") as f:
        f.write("\n".join(out))
    print("\n".join(out[-3:]))


if __name__ == "__main__":
    main()
