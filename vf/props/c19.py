"""C19 - concurrent calls behave like sequential calls.

Schedules:
  controlled - a cooperative scheduler (vf/sched.py) stops every worker thread at each genuine CPython
      pre-emption point inside library code and decides who continues: (a) *single pre-emption sweep*, exhaustive:
      thread A runs alone to its k-th point, B then runs to completion, A resumes - for every k and both role
      assignments; (b) two pre-emptions, sampled; (c) seeded random switching with p in {0.002, 0.02, 0.2} for two
      and three threads.
  raw - sys.setswitchinterval(1e-6), barrier start, 2-4 threads, many repetitions, no instrumentation.
Scenarios: racing first calls (lazy build), racing cache misses for equal and for different argument types, racing
call_next chains, racing value-dependent dispatcher generation.
Oracle: each thread's outcome equals the outcome of the same call on a sequential twin; no internal error
(RuntimeError, SyntaxError, spurious 'No method' / 'Ambiguous'); afterwards a sequential probe vector on the raced
function equals the reference.  A schedule that times out makes the run inconclusive, never a violation.
"""
import random
import sys
import threading

from .. import boot  # noqa: F401
from .. import gen, sched, tx as T
from ..observe import pin
from ..prog import Program, PVF, norm

ID = "C19"
LEVEL = "exploration"
RULE = ("cases = (random program with delegating / value-dependent methods) x scenario {first call, cache miss same "
        "types, cache miss different types, call_next chain, dependent dispatcher} x strategy {exhaustive single-"
        "pre-emption sweep in both role assignments, sampled double pre-emption, random switching p in {0.002, 0.02, "
        "0.2} with 2-3 threads, raw OS schedules with 1 us switch interval and 2-4 threads}; distinct_nontrivial = "
        "distinct interleaving signatures (run-length encoded sequence of thread ids over the scheduling points) of "
        "controlled schedules with at least one switch")
ASSUMPTIONS = [
    "two to four threads; the GIL build of CPython 3.12 (no free-threaded build available here)",
    "threads are switched at PY_START / CALL (non-inlined) / backward JUMP inside library code, and at every executed source line of library functions that store to attributes, items or globals (shared state)",
    "every thread has its own copy of the harness bookkeeping (the method-entry log is per thread)",
]
REPORT_COUNTERS = ["cases", "controlled_schedules", "sweep_schedules", "double_preemption_schedules", "same_function_window_schedules", "random_schedules",
                   "raw_races", "scheduling_points", "switches_forced", "lock_handoffs", "thread_outcomes_compared",
                   "post_run_probe_vectors", "scn_first_call", "scn_miss_same", "scn_miss_diff", "scn_next_chain",
                   "scn_dependent", "scn_kwonly", "scn_after_failed_build", "scn_callable_arg", "scn_hit_same", "scn_first_next", "calls_with_keywords", "programs_with_optional_positional", "programs_with_class_predicate_in_dependent_combination", "programs_racing_calls_made_before", "line_preempted_functions", "three_thread_schedules", "timeouts"]

SCENARIOS = ["first_call", "miss_same", "miss_diff", "next_chain", "dependent", "kwonly", "after_failed_build", "callable_arg",
             "hit_same", "first_next"]
STRATEGIES = ["sweep", "sweep", "double", "random", "raw"]


def plan(tier):
    n = 100 if tier == "quick" else 300
    return {"cases": n, "params": {"sweep_stride": 6 if tier == "quick" else 1, "random": 20 if tier == "quick" else 120,
                                  "raw": 60 if tier == "quick" else 600},
            "timeout_s": 1800 if tier == "quick" else 14000,
            "min": {"controlled_schedules": 2_000, "sweep_schedules": 1_000, "random_schedules": 200, "raw_races": 500,
                    "switches_forced": 1_500, "scn_first_call": 5, "scn_miss_same": 5, "scn_miss_diff": 5,
                    "scn_next_chain": 5, "scn_dependent": 5, "scn_kwonly": 5, "scn_after_failed_build": 5, "scn_callable_arg": 5, "scn_hit_same": 5, "scn_first_next": 5, "calls_with_keywords": 4, "same_function_window_schedules": 200}}


class TVF(PVF):
    """method-entry log kept per thread (the harness's own state must not be the race)"""

    def __init__(self):
        self._tl = threading.local()
        super().__init__()

    def _st(self):
        st = self._tl.__dict__
        if "log" not in st:
            st.update(log=[], nrec=0, alt=())
        return st

    def enter(self, mid, loc):
        st = self._st()
        st["log"].append(mid)
        # what the method received for its keyword-only parameters is part of what the call "returns"
        kws = [(k, repr(v)[:24]) for k, v in sorted(loc.items()) if k.startswith("k") and k[1:].isdigit()]
        if kws:
            st.setdefault("recv", []).append((mid, tuple(kws)))

    def rec_ok(self):
        st = self._st()
        st["nrec"] += 1
        return st["nrec"] <= 3

    @property
    def alt(self):
        return self._st()["alt"]

    @alt.setter
    def alt(self, v):
        self._st()["alt"] = v

    def reset(self, alt):
        st = self._st()
        st.update(log=[], nrec=0, alt=alt, recv=[])


WHERE = {}


def teardown(res):
    res.counters["line_preempted_functions"] = max(res.counters["line_preempted_functions"], sched.line_points())
    # pre-emption points reached, by library function (top 12 only, for the evidence)
    for k, v in sorted(WHERE.items(), key=lambda kv: -kv[1])[:12]:
        res.counters["points_in_" + k] += v


def gen_case(rng, params, idx):
    scn = SCENARIOS[idx % len(SCENARIOS)]
    strat = STRATEGIES[(idx // len(SCENARIOS)) % len(STRATEGIES)]
    if scn == "kwonly" and strat in ("random", "raw"):
        strat = "sweep" if strat == "random" else "double"     # the entry point's per-call scratch state is a matter of single lines
    if scn == "after_failed_build" and strat == "raw":
        strat = "sweep"     # a thread left waiting for ever is decided logically by the scheduler-aware lock only
    hier = gen.gen_hierarchy(rng, rng.randint(2, 4), attrs=False)
    dep = 0.45 if scn in ("dependent", "hit_same") else 0.1
    kinds = ("leaf", "next", "next", "nextalt", "fnext", "fnext") if scn == "next_chain" else ("leaf", "leaf", "next", "rec")
    if scn == "first_next":
        kinds = ("fnext", "fnext", "leaf")       # racing the first continuations through f.next of a built, unused function
    # kwonly: methods with (optional) keyword-only parameters; the threads pass different sets of keywords
    pk = 0.8 if scn == "kwonly" else 0
    spec = gen.gen_program(rng, hier=hier, npos=2 if scn == "first_next" else rng.choice([1, 1, 2]), nmeth=(3, 6), dep=dep, kinds=kinds,
                           kw=0.9 if scn == "kwonly" else 0.0, other_arity=0.0, catchall=0.8)
    if scn == "kwonly":
        for m in spec["methods"]:
            for k in m.get("kw", []):
                k["req"] = False
    if scn == "miss_same" and (strat == "sweep" or (idx // len(SCENARIOS)) % 2 == 0):
        # racing the same cache miss on a type whose methods *delegate*: the entries call_next relies on must be there
        # by the time the entry for the call itself can be hit by the other thread
        for m in spec["methods"]:
            if m["kind"] in ("leaf", "rec") and rng.random() < 0.85:
                m["kind"] = "next"
        spec["delegating_methods_on_racing_miss"] = True
    if scn == "hit_same" or (scn == "dependent" and rng.random() < 0.5):
        # user class predicates inside value-dependent combinations: the generated check asks them per argument class
        spec["methods"][0]["pos"][0]["t"] = rng.choice([
            ["I", ["CC", "isk"], ["D", "object", "truthy"]], ["U", ["CC", "nobase"], ["D", "int", "even"]],
            ["U", ["L", 1, 2], ["CC", "hasfly"]], ["I", ["CC", "evenname"], ["D", "object", "truthy"]]])
        spec["class_predicate_in_dependent"] = True
        if strat == "sweep":
            strat = "double"
    if rng.random() < 0.4:
        # optional trailing positional parameters: the entry point then needs its defaults
        for m in spec["methods"]:
            if rng.random() < 0.5:
                m["pos"][-1]["opt"] = True
        spec["has_optional"] = True
    vals = gen.values_for(hier)
    cg = gen.CallGen(spec, vals)
    c0 = cg.call(rng, p_kw=pk)
    type_second = scn == "first_next" or (scn == "next_chain" and spec["npos"] == 2 and rng.random() < 0.6)
    if scn == "first_next" and strat in ("sweep", "random", "raw"):
        strat = "double"
    if type_second:
        # the second position takes classes (type[...] annotations): continuations look them up differently
        hn = [s_["name"] for s_ in hier]
        for m in spec["methods"]:
            if len(m["pos"]) == 2:
                m["pos"][1]["t"] = ["Ty", rng.choice(hn + ["object", "object"])]
        cg = gen.CallGen(spec, vals)
        c0 = cg.call(rng, p_kw=pk)
        c0 = dict(c0, pos=[c0["pos"][0], ["c", rng.choice(hn)]])
        spec["type_second_position"] = True
    c1 = dict(c0) if scn in ("miss_same", "dependent", "first_next") and rng.random() < 0.7 else cg.call(rng, p_kw=pk)
    if scn == "kwonly" and rng.random() < 0.5:
        c1 = dict(c1, kw={})          # one thread passes keywords, the other none
    c2 = cg.call(rng, p_kw=pk)
    if type_second:
        c1 = dict(c1, pos=[c1["pos"][0], ["c", rng.choice(hn)]])
        c2 = dict(c2, pos=[c2["pos"][0], ["c", rng.choice(hn)]])
    if scn == "callable_arg":
        # a method on Callable[[int], Any]: whether a function matches is worked out from the function's own annotations
        # at call time; the functions passed return a mapping class made for this run, whose generic origin the
        # library's (process-wide) table of generic handlers has never been asked about
        spec["methods"] = [{"mid": 0, "pos": [{"n": "a0", "t": "object"}], "kw": [], "prio": 0, "kind": "leaf"},
                           {"mid": 1, "pos": [{"n": "a0", "t": "object"}], "kw": [], "prio": -1, "kind": "leaf"},
                           {"mid": 2, "pos": [{"n": "a0", "t": "int"}], "kw": [], "prio": 0, "kind": "leaf"}]
        spec["npos"] = 1
        c0 = c1 = c2 = {"pos": [["v", 0]], "kw": {}, "fn": True}
        cg = gen.CallGen(spec, vals)
    warm = cg.call(rng, p_kw=pk)
    if scn == "hit_same":
        # racing *hits*: the very call both threads make (on an instance of a class of the hierarchy, which the class
        # predicates are about) was made before, by the thread that set the function up
        c0 = dict(c0, pos=[["i", rng.choice(hier)["name"]]] + list(c0["pos"][1:]))
        c1 = dict(c0)
        warm = dict(c0)
        spec["racing_hits"] = True
    spec.update(scenario=scn, strategy=strat, calls=[c0, c1, c2], warm=warm,
                probes=[cg.call(rng, p_kw=pk) for _ in range(6)], seed=rng.randrange(1 << 30),
                sweep_stride=1 if spec.get("delegating_methods_on_racing_miss") else params["sweep_stride"], nrandom=params["random"], nraw=params["raw"])
    if type_second:
        for c in spec["probes"] + [spec["warm"]]:
            if len(c["pos"]) == 2:
                c["pos"][1] = ["c", rng.choice(hn)]
    return spec


LEAKS = []


def _mk(spec, env):
    if spec["scenario"] == "callable_arg":
        import typing
        prog = Program(spec, env=env, tag="c19", vf=TVF(), ann_overrides={0: {"a0": typing.Callable[[int], typing.Any]}})

        class FreshMap(dict):
            pass

        def g(x: int) -> FreshMap[str, int]:
            return FreshMap()
        prog._g = g
        return prog
    prog = Program(spec, env=env, tag="c19", vf=TVF())
    if spec["scenario"] == "after_failed_build":
        # history: an invalid method made the first build fail (in this, the harness thread); it was removed again,
        # so the function is fully defined when the threads make their first calls
        from .c18 import _bad_method
        bad = _bad_method("callnext", spec, prog.ns, prog.vf)
        prog.ov.register(bad)
        prog.vf.reset(())
        a = prog.args(spec["warm"])
        try:
            prog.fn(*a[0], **a[1])
        except Exception:  # noqa: BLE001
            pass
        prog.ov.unregister(bad)
        prog.bind()
        LEAKS.extend(sched.held_at_quiescence())
        return prog
    if spec["scenario"] != "first_call":
        prog.ov.compile()
        if spec["scenario"] == "first_next" or (spec.get("type_second_position") and spec["seed"] % 2):
            return prog      # built, but no call yet: the first continuation (f.next) of this build is made in the race
        if spec["scenario"] in ("miss_same", "miss_diff", "next_chain", "dependent", "kwonly", "hit_same"):
            prog.vf.reset(())
            a = prog.args(spec["warm"])
            try:
                prog.fn(*a[0], **a[1])
            except Exception:  # noqa: BLE001
                pass
    return prog


def _body(prog, call):
    pos, kw, alt = prog.args(call)
    if call.get("fn"):
        pos = [prog._g]       # the function made for this run is the argument

    def run():
        prog.vf.reset(alt)
        r = prog.fn(*pos, **kw)
        recv = prog.vf._st().get("recv")
        return (r, tuple(recv)) if recv else r
    return run


def _norm_result(r):
    from ..observe import classify_exception
    if r[0] == "ok":
        return ("ran", norm(r[1]))
    if r[0] == "exc":
        k = classify_exception(r[1], None)
        return norm(k)
    return r


def _sequential(spec, env, calls):
    """outcome of each call alone on its own fresh twin, and the reference probe vector"""
    outs = []
    for c in calls:
        p = _mk(spec, env)
        b = _body(p, c)
        try:
            outs.append(("ran", norm(b())))
        except BaseException as e:  # noqa: BLE001
            from ..observe import classify_exception
            outs.append(norm(classify_exception(e, None)))
        p.close()
    p = _mk(spec, env)
    ref = _probe(p, spec["probes"])
    p.close()
    return outs, ref


def _probe(prog, calls):
    out = []
    for c in calls:
        b = _body(prog, c)
        try:
            out.append(("ran", norm(b())))
        except BaseException as e:  # noqa: BLE001
            from ..observe import classify_exception
            out.append(norm(classify_exception(e, None)))
    return out


def check_case(spec, res):
    pin()
    sched.install()
    env = T.Env(spec["hier"])
    env.predlog.keep = False
    scn, strat = spec["scenario"], spec["strategy"]
    res.count("cases")
    res.count("scn_" + scn)
    res.sample({k: spec[k] for k in ("hier", "methods", "npos", "scenario", "strategy")} | {"calls": spec["calls"][:2]}, scn + "/" + strat)
    rng = random.Random(spec["seed"])
    nthreads = 3 if strat in ("random", "raw") and rng.random() < 0.4 else 2
    calls = spec["calls"][:nthreads]
    del LEAKS[:]
    seq, ref = _sequential(spec, env, calls)
    if LEAKS:
        res.count("locks_found_held_at_quiescence")
        res.violation("lock-held-at-quiescence", [scn, sorted(set(LEAKS))], spec,
                      observed={"after": "a failed build that was repaired, no library function running",
                                "locks_still_held_by_the_calling_thread": sorted(set(LEAKS))},
                      acceptable="no library lock is held between calls (another thread's first call would wait for ever)")
        del LEAKS[:]
        return
    res.count("calls_with_keywords", sum(1 for c in calls if c.get("kw")))
    if spec.get("has_optional"):
        res.count("programs_with_optional_positional")
    if spec.get("class_predicate_in_dependent"):
        res.count("programs_with_class_predicate_in_dependent_combination")
    if spec.get("racing_hits"):
        res.count("programs_racing_calls_made_before")

    def judge(results, prog, label, detail, s=None):
        got = [_norm_result(r) for r in results]
        res.ev()
        res.count("thread_outcomes_compared", len(got))
        if any(r == ("timeout",) for r in got) or (s is not None and s.timed_out):
            res.count("timeouts")
            res.harness_errors.append({"where": "c19 schedule timed out", "case": res.case_ref, "detail": detail})
            return False
        bad = [(i, g, e) for i, (g, e) in enumerate(zip(got, seq)) if g != e]
        after = _probe(prog, spec["probes"])
        res.count("post_run_probe_vectors")
        if bad or after != ref:
            res.violation("concurrent-vs-sequential", [scn, label, "thread-outcome" if bad else "post-state",
                                                       bad[0][1][0] if bad else "probe"], spec,
                          observed={"schedule": detail, "threads": [{"thread": i, "concurrent": g, "alone": e} for i, g, e in bad][:3],
                                    "post_state_diff": [{"call": c, "after_race": a, "reference": r} for c, a, r in zip(spec["probes"], after, ref) if a != r][:2]},
                          acceptable="every thread gets what it would get alone and the function stays correct")
            return False
        return True

    if strat == "raw":
        sched.enable(False)
        old = sys.getswitchinterval()
        sys.setswitchinterval(1e-6)
        try:
            for it in range(spec["nraw"]):
                prog = _mk(spec, env)
                bodies = [_body(prog, c) for c in calls]
                bar = threading.Barrier(nthreads)
                results = [None] * nthreads

                def worker(i):
                    bar.wait()
                    try:
                        results[i] = ("ok", bodies[i]())
                    except BaseException as e:  # noqa: BLE001
                        results[i] = ("exc", e)
                ts = [threading.Thread(target=worker, args=(i,)) for i in range(nthreads)]
                for t in ts:
                    t.start()
                for t in ts:
                    t.join(30)
                res.count("raw_races")
                ok = judge(results, prog, "raw", {"repetition": it, "threads": nthreads})
                prog.close()
                if not ok:
                    break
        finally:
            sys.setswitchinterval(old)
        return

    undo = sched.patch_lock()
    sched.enable(True)
    try:
        def controlled(policy, label, detail, first=0):
            prog = _mk(spec, env)
            bodies = [_body(prog, c) for c in calls]
            results, s = sched.run_threads(bodies, policy, first=first)
            res.count("controlled_schedules")
            res.count("scheduling_points", sum(s.points))
            res.count("switches_forced", sum(1 for x in s.switches if len(x) == 3))
            res.count("lock_handoffs", sum(1 for x in s.switches if len(x) == 4))
            if nthreads == 3:
                res.count("three_thread_schedules")
            if s.switches:
                res.nontrivial([scn, s.signature()])
            for k, v in s.where.items():
                WHERE[k] = WHERE.get(k, 0) + v
            ok = judge(results, prog, label, detail, s)
            prog.close()
            return ok, s

        if strat in ("sweep", "double"):
            for first in (0, 1):
                ok, s0 = controlled(sched.RunAlone(), "count", {"policy": "run-alone", "first": first}, first)
                if not ok:
                    return
                N = s0.points[first]
                M = s0.points[1 - first]
                if strat == "sweep":
                    for k in range(1, N + 1, spec["sweep_stride"]):
                        res.count("sweep_schedules")
                        ok, _ = controlled(sched.Sweep(k, first), "sweep", {"policy": "sweep", "k": k, "first": first}, first)
                        if not ok:
                            return
                else:
                    for _ in range(max(10, N // 4)):
                        k, k2 = rng.randint(1, max(1, N)), rng.randint(1, max(1, M))
                        res.count("double_preemption_schedules")
                        ok, _ = controlled(sched.Sweep(k, first, k2), "double", {"policy": "double", "k": k, "k2": k2, "first": first}, first)
                        if not ok:
                            return
                    # windows: both threads stopped between two lines of the *same* state-writing function (one has
                    # tested, the other has half-written) - every such pair of points, up to a cap
                    # (the second thread's points are taken from a run of its call *alone on a fresh twin*: in the race
                    # it finds the state the first thread has not finished writing, as it would on an untouched function)
                    la = s0.locs[first]
                    p_solo = _mk(spec, env)
                    _r, s_solo = sched.run_threads([_body(p_solo, calls[1 - first])], sched.RunAlone())
                    p_solo.close()
                    lb = s_solo.locs[0]
                    pairs = [(i + 1, j + 1) for i, a in enumerate(la) if a[1] == "line"
                             for j, b in enumerate(lb) if b[1] == "line" and b[0] == a[0]]
                    # a sample stratified by function (small functions would otherwise drown among the pairs of big ones)
                    byfn = {}
                    for pr in pairs:
                        byfn.setdefault(la[pr[0] - 1][0], []).append(pr)
                    pairs = []
                    for fn_ in sorted(byfn):
                        ps = byfn[fn_]
                        pairs += ps if len(ps) <= 36 else rng.sample(ps, 8)      # small functions: every pair
                    if len(pairs) > spec.get("window_cap", 120):
                        pairs = rng.sample(pairs, spec.get("window_cap", 120))
                    for k, k2 in pairs:
                        res.count("same_function_window_schedules")
                        ok, _ = controlled(sched.Sweep(k, first, k2), "window", {"policy": "double", "k": k, "k2": k2, "first": first,
                                                                                  "function": la[k - 1][0]}, first)
                        if not ok:
                            return
        else:
            for i in range(spec["nrandom"]):
                p = [0.002, 0.02, 0.2][i % 3]
                sd = rng.randrange(1 << 30)
                res.count("random_schedules")
                ok, _ = controlled(sched.RandomSwitch(p, random.Random(sd)), "random", {"policy": "random", "p": p, "seed": sd})
                if not ok:
                    return
    finally:
        sched.enable(False)
        undo()
