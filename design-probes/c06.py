import sys, random, collections, itertools
from typing import Literal
from h import *
import ovld.typemap as tm, ovld.mro as mro
from ovld import Dependent
from ovld.types import Union, Intersection
_orig_sort_types = mro.sort_types
ORDER = {"rng": None}
def perm_sort_types(cls, avail):
    a = sorted(avail, key=lambda t: str(t))
    if ORDER["rng"] is not None: ORDER["rng"].shuffle(a)
    return _orig_sort_types(cls, a)
tm.sort_types = perm_sort_types
def sk(self):
    r = ORDER["rng"]
    return (self.priority, sum(self.specificity), self.tiebreak, (r.random() if r is not None else 0), getattr(self.handler, "__name__", ""))
tm.Candidate.sort_key = sk
class MyInt(int): pass
def run(seed, flavour):
    rng = random.Random(seed)
    classes = gen_hierarchy(rng, rng.randint(3, 6)); pool = classes + [object]
    npos = rng.choice([1, 2]); params = [f"a{i}" for i in range(npos)]
    def gtype():
        r = rng.random()
        if flavour == "static" or r < 0.5: return rng.choice(pool)
        if flavour == "union":
            a, b = rng.sample(pool, 2); return Union[a, b] if r < 0.8 else Intersection[a, b]
        if r < 0.75: return Literal[rng.choice([0, 1, 2])]
        return Dependent[int, rng.choice([lambda x: x > 0, lambda x: x % 2 == 0])]
    specs = [dict(mid=i, params=params, anns={p: gtype() for p in params}, body=[f"return ({i},)"], prio=rng.choice([0, 0, 0, 1])) for i in range(rng.randint(2, 6))]
    # distinct signatures only
    seen = set(); specs2 = []
    for s in specs:
        k = (tuple(str(v) for v in s["anns"].values()), s["prio"])
        if k not in seen: seen.add(k); specs2.append(s)
    specs = specs2
    vals = [c() for c in classes] + [object(), 0, 1, 2, MyInt(1)]
    calls = list(itertools.product(vals, repeat=npos)) if npos == 1 else [tuple(rng.choice(vals) for _ in range(npos)) for _ in range(30)]
    def vector(sp, order_seed):
        ORDER["rng"] = random.Random(order_seed) if order_seed is not None else None
        o = build(sp)
        v = [outcome(lambda: o(*c))[:2] for c in calls]
        ORDER["rng"] = None
        return v
    base = vector(specs, None)
    diffs = collections.Counter()
    for k in range(4):
        if vector(specs, k) != base: diffs["iteration-order"] += 1; break
    for k in range(4):
        sp = specs[:]; random.Random(k).shuffle(sp)
        if vector(sp, None) != base: diffs["registration-order"] += 1; break
    # inapplicable additions: other arity
    extra = dict(mid=90, params=params + ["zz"], anns={**{p: rng.choice(pool) for p in params}, "zz": int}, body=["return (90,)"], prio=0)
    if vector(specs + [extra], None) != base: diffs["inapplicable-arity"] += 1
    return diffs
for flavour in ("static", "union", "dependent"):
    agg = collections.Counter()
    for seed in range(int(sys.argv[1])):
        agg["progs"] += 1; agg.update(run(seed, flavour))
    print(flavour, dict(agg))
