import itertools, collections.abc as cabc
from ovld import Ovld
from ovld.mro import subclasscheck
from ovld.types import Union, Intersection, Exactly, StrictSubclass, HasMethod, Dataclass
class A: pass
class B(A): pass
class C(A):
    def meth(self): pass
class D(B, C): pass
class E: pass
classes = [object, A, B, C, D, E, int, bool, str]
def sem(T):
    """documented meaning: T -> predicate on classes"""
    return T
atoms = {}
for c in classes: atoms[c] = (lambda c: lambda k: issubclass(k, c))(c)
for c in [A, B, D, int]:
    atoms[Exactly[c]] = (lambda c: lambda k: k is c)(c)
    atoms[StrictSubclass[c]] = (lambda c: lambda k: issubclass(k, c) and k is not c)(c)
atoms[HasMethod["meth"]] = lambda k: hasattr(k, "meth")
atoms[cabc.Sized] = lambda k: issubclass(k, cabc.Sized)
lvl1 = dict(atoms)
for (t1, p1), (t2, p2) in itertools.permutations(list(atoms.items()), 2):
    lvl1[Union[t1, t2]] = (lambda p1, p2: lambda k: p1(k) or p2(k))(p1, p2)
    lvl1[Intersection[t1, t2]] = (lambda p1, p2: lambda k: p1(k) and p2(k))(p1, p2)
import random
random.seed(1)
items = list(lvl1.items())
lvl2 = {}
for _ in range(3000):
    (t1,p1),(t2,p2) = random.sample(items, 2)
    if random.random()<0.5: lvl2[Union[t1,t2]] = (lambda p1, p2: lambda k: p1(k) or p2(k))(p1, p2)
    else: lvl2[Intersection[t1,t2]] = (lambda p1, p2: lambda k: p1(k) and p2(k))(p1, p2)
allT = {**lvl1, **lvl2}
bad = {}
n = 0
for T, pred in allT.items():
    for k in classes:
        n += 1
        try: got = subclasscheck(k, T)
        except Exception as e: got = "EXC " + type(e).__name__
        exp = pred(k)
        if got != exp:
            bad.setdefault((got, exp), []).append((T, k))
print(n, "checks over", len(allT), "types")
for kk, v in bad.items(): print(kk, len(v), v[:5])
# and through an actual ovld call
nb=0; bad2=[]
vals = [c() for c in classes]
for T, pred in random.sample(list(allT.items()), 600):
    o = Ovld()
    def m(x): return "M"
    m.__annotations__ = {"x": T}
    o.register(m)
    for v in vals:
        try: got = o(v) == "M"
        except TypeError as e: got = False if "No method" in str(e) else "EXC"
        except Exception as e: got = "EXC " + type(e).__name__
        if got != pred(type(v)): bad2.append((T, type(v).__name__, got))
print("ovld-level mismatches", len(bad2), bad2[:6])
