import sys, random, collections, itertools
from h import *
import pin
from ovld import Ovld
LEAFT = [int, str, float]
def run(seed):
    rng = random.Random(seed)
    nodes = []; mids = itertools.count(); alarms = []
    def table(n):
        tab = {}
        for p in n["parents"]: tab.update(table(p))
        tab.update(n["own"]); return tab
    nn = rng.randint(2, 7)
    for i in range(nn):
        if i == 0 or rng.random() < 0.15:
            ov = Ovld(); parents = []
        else:
            k = rng.choice([1, 1, 1, 2, 3]); parents = rng.sample(nodes, min(k, len(nodes)))
            if rng.random() < 0.5: ov = Ovld(mixins=[p["ov"] for p in parents])
            else: ov = parents[0]["ov"].copy(mixins=[p["ov"] for p in parents[1:]])
        n = dict(ov=ov, parents=parents, own={}, id=i); nodes.append(n)
        for _ in range(rng.randint(0, 3)):
            kind = rng.choice(["walk_list", "walk_tuple", "leaf", "leaf", "wrap"])
            mid = next(mids)
            if kind == "walk_list":
                fn = make_fn(mid, ["x"], {"x": list}, [f"return ['L{mid}'] + [recurse(e) for e in x]"]); n["own"][list] = ("walk", mid)
            elif kind == "walk_tuple":
                fn = make_fn(mid, ["x"], {"x": tuple}, [f"return ('T{mid}',) + tuple(recurse(e) for e in x)"]); n["own"][tuple] = ("walkt", mid)
            elif kind == "leaf":
                t = rng.choice(LEAFT); fn = make_fn(mid, ["x"], {"x": t}, [f"return ('leaf', {mid})"]); n["own"][t] = ("leaf", mid)
            else:
                fn = make_fn(mid, ["x"], {"x": dict}, [f"return {{'W{mid}': recurse(x['v'])}}"]); n["own"][dict] = ("wrap", mid)
            ov.register(fn)
    def ev(n, v):
        tab = table(n); t = type(v)
        if t not in tab: raise KeyError
        kind, mid = tab[t]
        if kind == "leaf": return ("leaf", mid)
        if kind == "walk": return [f"L{mid}"] + [ev(n, e) for e in v]
        if kind == "walkt": return (f"T{mid}",) + tuple(ev(n, e) for e in v)
        if kind == "wrap": return {f"W{mid}": ev(n, v["v"])}
    inputs = [1, "s", [1, "s", [2.5, (1, [3])]], (1, ("s",)), {"v": [1, {"v": "s"}]}, [[[]]], [{"v": (2.5,)}]]
    order = list(range(nn)) * 2; rng.shuffle(order)
    for i in order:
        n = nodes[i]
        for v in inputs:
            try: exp = ("ok", ev(n, v))
            except KeyError: exp = ("none",)
            LOG.clear()
            try: got = ("ok", n["ov"](v))
            except TypeError as e: got = ("none",) if ("No method" in str(e) or "positional argument" in str(e)) else ("typeerror", str(e)[:60])
            except Exception as e: got = ("exc", type(e).__name__, str(e)[:60])
            if got != exp: alarms.append((i, repr(v)[:30], got, exp))
    return [(n["id"], [p["id"] for p in n["parents"]], {t.__name__: v for t, v in n["own"].items()}) for n in nodes], alarms
stats = collections.Counter(); exs = []
for seed in range(int(sys.argv[1])):
    g, alarms = run(seed)
    stats["progs"] += 1; stats["alarm_progs"] += bool(alarms); stats["alarms"] += len(alarms)
    if alarms and len(exs) < 5: exs.append((seed, g, alarms[:2]))
print(stats)
for e in exs: print(e)
