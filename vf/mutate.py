"""Self-validation by deliberate breakage (DESIGN §5).

    /venv/bin/python -m vf.mutate [--tests] [--tier quick] [name-or-property ...]

Each mutant is a textual replacement applied to a scratch copy of /repo/src under /tmp (never
to /repo); the named checks are run against the copy through $OVLD_SRC and are expected to
report a *new* VIOLATION (exit 1).  The copy is deleted afterwards.  This tool is for building
confidence in the monitors; no registered check depends on it.
"""
import os
import shutil
import subprocess
import sys
import tempfile

HERE = os.path.dirname(os.path.dirname(os.path.abspath(__file__)))

# name: (file, old, new, [properties expected to catch it])
MUTANTS = {
    # ---- C13
    "union_any_all": ("types.py", "return any(subclasscheck(other, t) for t in self.types)",
                      "return all(subclasscheck(other, t) for t in self.types)", ["C13"]),
    "strict_accepts_base": ("types.py", "        and cls is not base_cls\n", "", ["C13"]),
    "inter_all_any": ("types.py", "return all(subclasscheck(other, t) for t in self.types)",
                      "return any(subclasscheck(other, t) for t in self.types)", ["C13"]),
    "exactly_accepts_sub": ("types.py", "supertype=cls is base_cls,", "supertype=issubclass(cls, base_cls),", ["C13"]),
    # ---- C08
    "ovld_mangled_const": ("recode.py", 'ovld_mangled = f"___OVLD{ovld.id}"', 'ovld_mangled = "___OVLD_"', ["C08"]),
    "map_mangled_const": ("recode.py", 'map_mangled = f"___MAP{ovld.id}"', 'map_mangled = "___MAP_"', ["C08"]),
    "adapt_memo": ("recode.py", "def adapt_function(fn, ovld, newname):\n    \"\"\"Create a copy of the function with a different name.\"\"\"\n",
                   "_memo = {}\n\n\ndef adapt_function(fn, ovld, newname):\n    if fn not in _memo:\n        _memo[fn] = _adapt_function(fn, ovld, newname)\n    return _memo[fn]\n\n\ndef _adapt_function(fn, ovld, newname):\n", ["C08"]),
    # ---- C02
    "dominates_gt": ("typemap.py", "                s1 >= s2 for s1, s2 in zip(self.specificity, other.specificity)",
                     "                s1 > s2 for s1, s2 in zip(self.specificity, other.specificity)", ["C02"]),
    "tiebreak_ge": ("typemap.py", "            return self.tiebreak > other.tiebreak", "            return self.tiebreak >= other.tiebreak", ["C02"]),
    "prio_ignored_when_spec_differs": ("typemap.py", "        if self.priority > other.priority:\n            return True\n        elif self.specificity != other.specificity:",
                                       "        if self.specificity != other.specificity:", ["C02"]),
    "sortkey_no_prio": ("typemap.py", "        return self.priority, sum(self.specificity), self.tiebreak", "        return sum(self.specificity), self.priority, self.tiebreak", ["C02"]),
    "arity_filter_off": ("typemap.py", "                if sig.req_pos\n                <= nargs\n                <= (math.inf if sig.vararg else sig.max_pos)\n                and not (sig.req_names - names)",
                         "                if not (sig.req_names - names)", ["C02", "C01"]),
    "reqnames_filter_off": ("typemap.py", "                and not (sig.req_names - names)\n", "", ["C02", "C01"]),
    "pushdown_tiebreak_plus": ("core.py", "msig = replace(sig, tiebreak=sig.tiebreak - 1)", "msig = replace(sig, tiebreak=sig.tiebreak + 1)", ["C02"]),
    "resolve_uses_type": ("core.py", "        return tuple(lookup_for(i)(arg) for i, arg in enumerate(args))", "        return tuple(type(arg) for i, arg in enumerate(args))", ["C14"]),
    # ---- C04
    "mro_inplace_filter": ("typemap.py", "            results = {\n                handler: spc\n                for (handler, sig), spc in results.items()\n                if sig.req_pos",
                           "            for _k in [k for k in results if not (k[1].req_pos <= nargs <= k[1].max_pos and not (k[1].req_names - names))]:\n                del results[_k]\n            results = {\n                handler: spc\n                for (handler, sig), spc in results.items()\n                if sig.req_pos", ["C04"]),
    "errors_keyed_short": ("typemap.py", "                for tup in tups:\n                    self.errors[tup] = self.key_error(obj_t_tup, group)",
                           "                for tup in tups:\n                    self.errors[tup[-1:]] = self.key_error(obj_t_tup, group)", ["C04"]),
    "fresh_call_not_when_absent": ("typemap.py", "            if obj_t_tup[0] not in self.all[real_tup]:\n                return self[real_tup]",
                                   "            if obj_t_tup[0] not in self.all.get(real_tup[:1], self.all[real_tup]):\n                return self[real_tup]", ["C04"]),
    # ---- C07
    "parents_first_code": ("typemap.py", "            parents = codes\n", "            parents = codes[:1]\n", ["C07"]),
    "fresh_test_inverted": ("typemap.py", "            if obj_t_tup[0] not in self.all[real_tup]:", "            if obj_t_tup[0] in self.all[real_tup]:", ["C07"]),
    "next_skips_rank": ("typemap.py", "        for group, (func, codes) in zip(results, funcs):", "        for group, (func, codes) in zip(results[:1] + results[2:], funcs[:1] + funcs[2:]):", ["C07"]),
    "next_error_none_for_amb": ("typemap.py", "            elif obj_t_tup in self.errors:\n                raise self.errors[obj_t_tup]\n            elif obj_t_tup in self:", "            elif obj_t_tup in self:", ["C07"]),
    "callnext_key_no_code": ("recode.py", "        if cn:\n            type_parts.insert(0, ast.Name(id=self.code_mangled, ctx=ast.Load()))\n", "", ["C07"]),
    # ---- C20
    "mtm_pop_result": ("typemap.py", "        else:\n            return self[obj_t_tup]\n", "        else:\n            return self.pop(obj_t_tup)\n", ["C20"]),
    "resolve_method_recomputes": ("core.py", "        self.ensure_compiled()\n        return self.map[self._lookup_key(args)]", "        self.ensure_compiled()\n        self.map.resolve(self._lookup_key(args))\n        return self.map[self._lookup_key(args)]", ["C20"]),
    # ---- C05
    "typemap_register_noclear": ("typemap.py", "        self.clear()\n        self.types.add(obj_t)", "        self.types.add(obj_t)", ["C05"]),
    "mtm_register_keeps_errors": ("typemap.py", "        self.errors.clear()\n", "", ["C05"]),
    "mtm_register_keeps_all": ("typemap.py", "        self.all.clear()\n", "", ["C05"]),
    "mtm_register_noclear": ("typemap.py", "        self.clear()\n        self.all.clear()", "        self.all.clear()", ["C05"]),
    "unregister_no_update": ("core.py", "        rebuild = self._begin_update()\n        self._defns = {}", "        rebuild = []\n        self._defns = {}", ["C05"]),
    "unregister_keeps_tiebreak": ("core.py", "                self._defns[replace(key, tiebreak=-i)] = f", "                self._defns[replace(key, tiebreak=_)] = f", ["C05"]),
    # ---- C16
    "defns_overlay_reversed": ("core.py", "        for mixin in self.mixins:\n            defns.update(mixin.defns)\n        defns.update(self._defns)",
                               "        defns.update(self._defns)\n        for mixin in reversed(self.mixins):\n            defns.update(mixin.defns)", ["C16"]),
    "compile_no_lock": ("core.py", "        self._lock_parents()\n        self._compiled = True", "        self._compiled = True", ["C16"]),
    "lock_not_recursive": ("core.py", "        self._locked = True\n        for mixin in self.mixins:\n            mixin.lock()\n", "        self._locked = True\n", ["C16"]),
    "no_children_append": ("core.py", "                mixin.children.append(self)\n", "                pass\n", ["C16"]),
    "update_no_children": ("core.py", "        yield self\n        for child in self.children:\n            yield from child._linked()\n", "        yield self\n", ["C16"]),
    "addmixins_no_update": ("core.py", "        rebuild = self._begin_update()\n        for mixin in mixins:", "        rebuild = []\n        for mixin in mixins:", ["C16"]),
    "copy_shares_defns": ("core.py", "        return Ovld(mixins=[self, *mixins], linkback=linkback)", "        o = Ovld(mixins=[self, *mixins], linkback=linkback)\n        o._defns = self._defns\n        return o", ["C16"]),
    # ---- C06
    "sortkey_id": ("typemap.py", "        return self.priority, sum(self.specificity), self.tiebreak", "        return self.priority, sum(self.specificity), self.tiebreak, id(self.handler)", ["C06"]),
    "sortkey_regorder": ("typemap.py", "        return self.priority, sum(self.specificity), self.tiebreak", "        return self.priority, sum(self.specificity), self.tiebreak, -self.handler.__code__.co_firstlineno, self.handler.__code__.co_filename", ["C06"]),
    "union_order_first_member": ("types.py", "        classes = self.types\n        compare = [\n            x for t in classes if (x := typeorder(t, other)) is not Order.NONE\n        ]\n        if not compare:\n            return Order.NONE\n        elif any(x is Order.MORE",
                                 "        classes = self.types[:1]\n        compare = [\n            x for t in classes if (x := typeorder(t, other)) is not Order.NONE\n        ]\n        if not compare:\n            return Order.NONE\n        elif any(x is Order.MORE", ["C06", "C12"]),
    "dominates_by_regorder": ("typemap.py", "            return self.tiebreak > other.tiebreak", "            return (self.tiebreak, self.handler.__code__.co_filename) > (other.tiebreak, other.handler.__code__.co_filename)", ["C06"]),
    # ---- C12
    "opposite_more_self": ("mro.py", "        elif self is Order.MORE:\n            return Order.LESS", "        elif self is Order.MORE:\n            return Order.MORE", ["C12"]),
    "inter_order_swapped": ("types.py", "        elif any(x is Order.LESS or x is Order.SAME for x in compare):\n            return Order.LESS\n        else:\n            return Order.MORE",
                            "        elif any(x is Order.LESS or x is Order.SAME for x in compare):\n            return Order.MORE\n        else:\n            return Order.LESS", ["C12"]),
    "generic_args_ignored": ("mro.py", "        ords = [typeorder(a1, a2) for a1, a2 in zip(args1, args2)]\n        return Order.merge(ords)", "        return Order.SAME", ["C12"]),
    "dep_vs_class_none": ("dependent.py", "        elif subclasscheck(other, self.bound) or subclasscheck(\n            self.bound, other\n        ):\n            return Order.LESS", "        elif subclasscheck(other, self.bound):\n            return Order.LESS", ["C12"]),
    "typeorder_no_reflect": ("mro.py", "        return result.opposite()\n\n    o1 = get_origin(t1)", "        return result\n\n    o1 = get_origin(t1)", ["C12"]),
    "merge_less_wins": ("mro.py", "        elif not (orders - {Order.LESS, Order.SAME}):\n            return Order.LESS", "        elif Order.LESS in orders:\n            return Order.LESS", ["C12"]),
    # ---- C10 / C11
    "fallthrough_raises": ("recode.py", '    inject["FALLTHROUGH"] = (next_call and next_call[0]) or raise_error', '    inject["FALLTHROUGH"] = raise_error', ["C10"]),
    "force_exclusive": ("recode.py", "    if len(handlers) == 1:\n        exclusive = True", "    exclusive = True", ["C10"]),
    "table_threshold_2": ("recode.py", "if disjoint and len(featured) < 4:", "if disjoint and len(featured) < 2:", ["C10", "C11"]),
    "table_threshold_40": ("recode.py", "if disjoint and len(featured) < 4:", "if disjoint and len(featured) < 40:", ["C10", "C11"]),
    "equals_is": ("dependent.py", 'return CodeGen("({arg} == {p})", p=self.parameter)', 'return CodeGen("({arg} is {p})", p=self.parameter)', ["C11", "C10"]),
    "product_no_len": ("dependent.py", '        checks = ["len({arg}) == {n}"]', '        checks = ["True"]', ["C11"]),
    "dep_guard_dropped": ("dependent.py", "        return isinstance(other, self.bound) and self.check(other)", "        return self.check(other)", ["C11"]),
    "union_guard_dropped": ("dependent.py", "    if isinstance(typ, DependentType) and bound is not None:", "    if False:", ["C10", "C11"]),
    "dep_supertype_any": ("dependent.py", "        elif subclasscheck(other, self.bound):\n            return True\n        else:\n            return False", "        else:\n            return True", ["C10"]),
    "keys_first_only": ("dependent.py", "        return list(self.parameters)", "        return [self.parameter]", ["C10", "C11"]),
    "overlap_keeps_table": ("recode.py", "                    elif disjoint:\n                        keyexpr", "                    elif True:\n                        keyexpr", ["C10"]),
    "conj_drops_second": ("recode.py", '        conj = " and ".join(codes)', '        conj = " and ".join(codes[:1])', ["C10", "C01"]),
    # ---- C15
    "annotated_not_unwrapped": ("types.py", "        if isinstance(t, typing._AnnotatedAlias):\n            # Annotated[A, ...] is A: normalize what it wraps\n            return self(t.__origin__, fn)\n", "", ["C15"]),
    "tuple_members_reversed_no_norm": ("types.py", "            return Union[tuple(self(t2, fn) for t2 in t)]", "            return Union[tuple(reversed(t))]", ["C11", "C10"]),
    "any_not_object": ("types.py", "        elif t is typing.Any:\n            t = object\n", "", ["C15"]),
    "union_eq_ordered": ("types.py", "        return set(self.__args__) == set(other.__args__)\n\n    def __hash__(self):\n        return hash(frozenset(self.__args__))\n\n    def __str__(self):\n        return \" | \"",
                         "        return self.__args__ == other.__args__\n\n    def __hash__(self):\n        return hash(self.__args__)\n\n    def __str__(self):\n        return \" | \"", ["C15"]),
    "string_ann_builtins_only": ("types.py", '            t = eval(t, getattr(fn, "__globals__", {}))', '            t = eval(t, {})', ["C15"]),
    "pipe_union_first_member": ("types.py", "            return self(t.__args__, fn)\n        elif origin is type:", "            return self(t.__args__[:1], fn)\n        elif origin is type:", ["C15"]),
    "literal_bound_first": ("dependent.py", "        if len(types) == 1:\n            return types[0]", "        if True:\n            return types[0]", ["C15", "C11"]),
    # ---- C03
    "missing_branch_slice_off_by_one": ("recode.py", "                posargs=join(posargs[: req + i + 1] + posargs[npos + 1 :]),", "                posargs=join(posargs[: req + i + 2] + posargs[npos + 1 :]),", ["C03"]),
    "missing_branch_drops_kw": ("recode.py", "                lookup=join(lookup[: req + i] + lookup[npos:], trail=True),\n                posargs=join(posargs[: req + i + 1] + posargs[npos + 1 :]),",
                                "                lookup=join(lookup[: req + i], trail=True),\n                posargs=join(posargs[: req + i + 1]),", ["C03", "C02"]),
    "kwargs_wrong_name": ("recode.py", '        body.append(f"    KWARGS[{name!r}] = {name}")', '        body.append(f"    KWARGS[{ko[0]!r}] = {name}")', ["C03"]),
    "required_kw_swapped": ("recode.py", '        posargs.append(f"{name}={name}")', '        posargs.append(f"{name}={kr[0]}")', ["C03"]),
    "empty_key_first_handler": ("typemap.py", "                if sig.req_pos == 0 and not sig.req_names\n            }", "                if sig.req_pos == 0\n            }", ["C03"]),
    "rename_drops_kwdefaults": ("recode.py", "    new_fn.__kwdefaults__ = fn.__kwdefaults__\n    new_fn.__annotations__ = fn.__annotations__\n    return new_fn\n\n\nclass PrivateNameMangler", "    new_fn.__annotations__ = fn.__annotations__\n    return new_fn\n\n\nclass PrivateNameMangler", ["C03"]),
    "rename_shares_defaults": ("recode.py", "        newcode, fn.__globals__, newname, fn.__defaults__, fn.__closure__\n    )\n    new_fn.__kwdefaults__", "        newcode, fn.__globals__, newname, None, fn.__closure__\n    )\n    new_fn.__kwdefaults__", ["C03"]),
    # ---- C09
    "rewriter_kw_before_pos": ("recode.py", "        type_parts = [\n            _make_lookup_call(i, arg) for i, arg in enumerate(node.args)\n        ]\n\n        # type index for keyword arguments\n        type_parts += [",
                               "        type_parts = []\n        type_parts_pos = [\n            _make_lookup_call(i, arg) for i, arg in enumerate(node.args)\n        ]\n\n        # type index for keyword arguments\n        type_parts += [", ["C09"]),
    "rewriter_skip_visit_arg": ("recode.py", "                value=self.visit(arg),", "                value=arg,", ["C09"]),
    "recode_drop_kwdefaults": ("recode.py", "    new_fn.__kwdefaults__ = fn.__kwdefaults__\n    new_fn.__annotations__ = fn.__annotations__\n    new_fn = rename_function(new_fn, newname)", "    new_fn.__annotations__ = fn.__annotations__\n    new_fn = rename_function(new_fn, newname)", ["C09"]),
    "recode_lineno_plus1": ("recode.py", "    ast.increment_lineno(new, fn.__code__.co_firstlineno - 1)", "    ast.increment_lineno(new, fn.__code__.co_firstlineno)", ["C09"]),
    "recode_defaults_none": ("recode.py", "        new_code, fn.__globals__, newname, fn.__defaults__, new_closure", "        new_code, fn.__globals__, newname, None, new_closure", ["C09"]),
    "rewriter_args_reversed": ("recode.py", "            + [\n                ast.Name(id=f\"{tmp}{i}\", ctx=ast.Load())\n                for i, arg in enumerate(node.args)\n            ],", "            + [\n                ast.Name(id=f\"{tmp}{i}\", ctx=ast.Load())\n                for i, arg in reversed(list(enumerate(node.args)))\n            ],", ["C09"]),
    "rewriter_tmp_shared": ("recode.py", '        tmp = f"__TMP{next(self.count)}_"', '        tmp = "__TMP_"', ["C09"]),
    "closure_wrong_cell": ("recode.py", "            fn.__closure__[fn.__code__.co_freevars.index(name)]", "            fn.__closure__[0]", ["C09"]),
    # ---- C18
    "compile_no_reset": ("core.py", "            self._invalidate()\n            raise", "            raise", ["C18"]),
    "compile_reset_only_exception": ("core.py", "                self._compile()\n        except BaseException:", "                self._compile()\n        except Exception:", ["C18"]),
    "compiled_flag_early": ("core.py", "        self.analyze_arguments()\n        dispatch = generate_dispatch(self, self.argument_analysis)", "        self._compiled = True\n        self.analyze_arguments()\n        dispatch = generate_dispatch(self, self.argument_analysis)", ["C18"]),
    "compile_reset_keeps_compiled": ("core.py", "        self._compiled = False\n        dispatch = getattr", "        dispatch = getattr", ["C18"]),
    "publish_primary_first": ("typemap.py", "        for tup, func in reversed(entries):\n            self[tup] = func", "        for tup, func in entries:\n            self[tup] = func", ["C18", "C19"]),
    # ---- C19
    "ensure_compiled_unlocked": ("core.py", "        with resolution_lock:\n            # Another thread may have compiled it in the meantime\n            if not self._compiled:\n                self.compile()",
                                 "        if not self._compiled:\n            self.compile()", ["C19"]),
    "ensure_compiled_no_recheck": ("core.py", "            # Another thread may have compiled it in the meantime\n            if not self._compiled:\n                self.compile()",
                                   "            self.compile()", ["C19"]),
    "missing_unlocked": ("typemap.py", "        with resolution_lock:\n            return self._missing(obj_t_tup)", "        return self._missing(obj_t_tup)", ["C19"]),
    "compile_unlocked": ("core.py", "            with resolution_lock:\n                self._compile()", "            self._compile()", ["C19"]),
    "all_lock_removed": ("typemap.py", "resolution_lock = threading.RLock()", "import contextlib\nresolution_lock = contextlib.nullcontext()", ["C19"]),
    # ---- C17
    "ext_first_base_only": ("core.py", "                for other in others:\n                    prev.add_mixins(other)\n", "", ["C17"]),
    "ext_no_copy": ("core.py", "                prev = prev.copy()\n                for other in others:", "                for other in others:", ["C17"]),
    "ext_reverse_bases": ("core.py", "                prev, *others = mixins\n", "                prev, *others = mixins[::-1]\n", ["C17"]),
    # ---- C14
    "subtler_no_generic": ("utils.py", "    if isinstance(obj, GenericAlias):\n        return type[obj]\n    elif isinstance(obj, UnionTypes)", "    if isinstance(obj, UnionTypes)", ["C14"]),
    "lookup_always_type": ("core.py", "return subtler_type if key in self.complex_transforms else type",
                           "return type", ["C14"]),
    "subclasscheck_arity": ("mro.py", "                if len(args1) != len(args2):\n                    return False\n", "", ["C14", "C13"]),
}


# mutants that cannot be told apart from the original by the property they were written for (kept in the table so
# that the report says so instead of counting them as misses)
EQUIVALENT = {
    "mtm_register_keeps_all": "self.all is rewritten by mro() whenever the cleared table misses: clearing it is redundant",
    "table_threshold_2": "C11's own statement: which checking code is generated must not change the answer",
    "table_threshold_40": "C11's own statement: which checking code is generated must not change the answer",
    "compiled_flag_early": "the failure handler resets the flag anyway",
    "publish_primary_first": "for C19 only: under the resolution lock a reader that hits the main entry early blocks until the continuation entries exist (C18 catches it with injected faults)",
    "ensure_compiled_unlocked": "compile() itself takes the lock; what remains is a redundant second build, harmless since F27 / F44 (entry point and call sites switch to a complete table in one step)",
    "ensure_compiled_no_recheck": "a redundant second build under the lock, harmless since F27 / F44",
    "compile_unlocked": "ensure_compiled still holds the lock around it for first calls; concurrent register() is outside C19's statement",
}


def make_copy(name):
    d = tempfile.mkdtemp(prefix=f"ovld-mut-{name}-")
    shutil.copytree("/repo/src", os.path.join(d, "src"))
    return d


def apply(d, file, old, new):
    p = os.path.join(d, "src", "ovld", file)
    s = open(p).read()
    if s.count(old) != 1:
        raise LookupError(f"mutant text found {s.count(old)} times in {file}")
    open(p, "w").write(s.replace(old, new))


def run_tests(d):
    env = dict(os.environ, PYTHONPATH=os.path.join(d, "src"), PYTHONDONTWRITEBYTECODE="1")
    env.pop("OVLD_VERIF", None)
    r = subprocess.run(["/venv/bin/python", "-m", "pytest", "-q", "-p", "no:cacheprovider", "-x", "--timeout=900",
                        "--deselect", "tests/test_ovld.py::test_conform", "--deselect", "tests/test_ovld.py::test_conform_2",
                        "--deselect", "tests/test_ovld.py::test_display", "--deselect", "tests/test_ovld.py::test_display_more",
                        "--deselect", "tests/test_ovld.py::test_doc", "--deselect", "tests/test_ovld.py::test_doc2",
                        "--deselect", "tests/test_ovld.py::test_method_doc", "/repo/tests"],
                       cwd=d, env=env, capture_output=True, text=True)
    return r.stdout.strip().splitlines()[-1] if r.stdout.strip() else r.stderr[-200:]


def main(argv):
    tests = "--tests" in argv
    tier = "quick"
    if "--tier" in argv:
        tier = argv[argv.index("--tier") + 1]
    sel = [a for a in argv if not a.startswith("--") and a != tier]
    rows = []
    for name, (file, old, new, props) in MUTANTS.items():
        if sel and name not in sel and not (set(sel) & set(props)):
            continue
        d = make_copy(name)
        try:
            try:
                apply(d, file, old, new)
            except LookupError as e:
                print(f"{name:28s} STALE: {e}", flush=True)
                continue
            tline = run_tests(d) if tests else "-"
            for p in props:
                if sel and name not in sel and p not in sel:
                    continue
                env = dict(os.environ, OVLD_SRC=os.path.join(d, "src"), VF_OUT=d)
                r = subprocess.run([os.path.join(HERE, "check"), p, tier], env=env, capture_output=True, text=True)
                viol = [l for l in r.stdout.splitlines() if l.startswith("VIOLATION")]
                mons = sorted({l.split()[0] for l in r.stdout.splitlines() if l.startswith("  monitor=")})
                rows.append((name, p, r.returncode, len(viol), ",".join(mons)[:120], tline))
                print(f"{name:28s} {p} exit={r.returncode} violations={len(viol)} {','.join(mons)[:120]} tests[{tline}]",
                      flush=True)
                if r.returncode == 2:
                    print("   " + "\n   ".join(l[:300] for l in r.stdout.splitlines() if l.startswith("INCONCLUSIVE")))
        finally:
            shutil.rmtree(d, ignore_errors=True)
    # the evidence files were overwritten by mutant runs: the caller should re-run the checks on /repo
    missed = [r for r in rows if r[2] != 1 and not (r[0] in EQUIVALENT)]
    equiv = [r for r in rows if r[2] != 1 and r[0] in EQUIVALENT]
    print(f"{len(rows) - len(missed) - len(equiv)}/{len(rows)} mutant runs detected; "
          f"equivalent for the property: {[(r[0], r[1]) for r in equiv]}; missed: {[(r[0], r[1], r[2]) for r in missed]}")
    for n in sorted({r[0] for r in equiv}):
        print(f"  equivalent {n}: {EQUIVALENT[n]}")
    return 0


if __name__ == "__main__":
    sys.exit(main(sys.argv[1:]))
