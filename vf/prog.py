"""Generated programs: a JSON spec (hierarchy + methods with behaviours) -> a real Ovld.

method spec:
    {"mid": 3, "pos": [{"n": "a0", "t": tx, "opt": bool, "po": bool}], "kw": [{"n": "k1", "t": tx, "req": bool}],
     "prio": 0, "kind": "leaf" | "next" | "fnext" | "rec" | "nextalt" | "raise"}
call spec:
    {"pos": [vx...], "kw": {name: vx}, "alt": [vx...]}     (alt: arguments used by rec / nextalt bodies)

Body results are trees that name every method entered:
    leaf -> ('m', mid)      next/fnext/nextalt -> ('n', mid, <result of the delegation>)
    rec  -> ('r', mid, <result of recurse(alt...)>)   (bounded by VF.rec_ok)
"""
from . import boot  # noqa: F401
from . import tx as T
from .methods import make_method, forget
from .observe import VF, outcome

from ovld import Ovld, OvldBase

REC_LIMIT = 3


class PVF(VF):
    def __init__(self):
        super().__init__()
        self.alt = ()
        self.nrec = 0

    def clear(self):
        super().clear()
        self.nrec = 0

    def ondemand(self, mid):
        hook = getattr(self, "ondemand_hook", None)
        if hook is not None:
            hook(mid)

    def rec_ok(self):
        self.nrec += 1
        return self.nrec <= REC_LIMIT


def body_lines(m, is_method=False):
    mid, kind = m["mid"], m.get("kind", "leaf")
    posn = [p["n"] for p in m.get("pos", [])]
    kwn = [k["n"] for k in m.get("kw", [])]
    argl = ", ".join(posn + [f"{k}={k}" for k in kwn])
    nalt = len(posn)
    altl = ", ".join(f"__vf.alt[{i}]" for i in range(nalt))
    if kind == "leaf":
        return [f"return ('m', {mid})"]
    if kind == "raise":
        return [f"raise UserExc({mid})"]
    if kind == "next":
        # "regs": the method changes the function while it runs (registers something that applies to nothing that is
        # ever passed) and then delegates - the continuation goes on below this method all the same
        pre = [f"__vf.ondemand({mid})"] if m.get("regs") else []
        return pre + [f"return ('n', {mid}, call_next({argl}))"]
    if kind == "fnext":
        return [f"return ('n', {mid}, __F.next({', '.join(posn)}))"]
    if kind == "rec":
        return [f"return ('r', {mid}, recurse({altl})) if __vf.rec_ok() else ('m', {mid})"]
    if kind == "nextalt":
        return [f"return ('n', {mid}, call_next({altl})) if __vf.rec_ok() else ('m', {mid})"]
    if kind == "fnextalt":
        # f.next with *other* arguments: the same meaning as call_next with them
        return [f"return ('n', {mid}, __F.next({altl})) if __vf.rec_ok() else ('m', {mid})"]
    if kind == "recnest":
        # a rewritten call nested inside the argument list of another one, on one line (entry monitors only)
        if nalt >= 2:
            inner = "recurse(" + ", ".join(f"__vf.alt[{(i + 1) % nalt}]" for i in range(nalt)) + ")"
            outer = ", ".join([f"__vf.alt[{i}]" for i in range(nalt - 1)] + [inner])
        else:
            inner, outer = "recurse(__vf.alt[0])", "recurse(__vf.alt[0])"
        return [f"return ('r', {mid}, recurse({outer})) if __vf.rec_ok() else ('m', {mid})"]
    raise ValueError(kind)


class Program:
    def __init__(self, spec, env=None, tag="p", only=None, order=None, vf=None, spelling="typing",
                 extra=None, build=True, ann_overrides=None, ns=None):
        self.spec = spec
        self.env = env or T.Env(spec.get("hier", []))
        self.vf = vf or PVF()
        self.tag = tag
        self.files = []
        self.ns = dict(ns or {})
        self.fns = {}
        self.spelling = spelling
        self.ann_overrides = ann_overrides or {}     # {mid: {param name: annotation object}}
        methods = list(spec["methods"]) + list(extra or [])
        if only is not None:
            methods = [m for m in methods if m["mid"] in only]
        if order is not None:
            methods = [methods[i] for i in order]
        self.methods = methods
        self.ov = None
        self.instance = None
        if build:
            self.build()

    def make(self, m):
        fn, f = make_method(m, self.env, self.vf, body_lines(m), tag=self.tag, shared_ns=self.ns,
                            spelling=self.spelling, ann_override=self.ann_overrides.get(m["mid"]))
        self.files.append(f)
        self.fns[m["mid"]] = fn
        return fn

    def build(self):
        """spec["mode"]: plain (default) | variant | mixin | method
        variant: methods[:split] on a base function, the rest on base.copy()
        linkback: methods[:split] on a base function, base.copy(linkback=True) compiled, the rest on the base
        mixin:   methods[:split] and methods[split:] on two functions combined with Ovld(mixins=[a, b])
        method:  every method takes self; the function is a class attribute and is called on an instance"""
        mode = self.spec.get("mode", "plain")
        split = self.spec.get("split", len(self.methods))
        self.instance = None
        if mode == "method":
            for m in self.methods:
                m["self"] = True
        if mode == "variant":
            base = Ovld()
            for m in self.methods[:split]:
                base.register(self.make(m), priority=m.get("prio", 0))
            self.base = base
            self.ov = base.copy()
            for m in self.methods[split:]:
                self.ov.register(self.make(m), priority=m.get("prio", 0))
        elif mode == "linkback":
            # a linkback copy that is built and used first; its parent (never used itself) gets the rest afterwards
            base = Ovld()
            for m in self.methods[:split]:
                base.register(self.make(m), priority=m.get("prio", 0))
            self.base = base
            self.ov = base.copy(linkback=True)
            self.ov.compile()
            for m in self.methods[split:]:
                base.register(self.make(m), priority=m.get("prio", 0))
        elif mode == "linkback_all":
            # the function under test is a linkback copy of a parent that holds every method and is not used yet
            base = Ovld()
            for m in self.methods:
                base.register(self.make(m), priority=m.get("prio", 0))
            self.base = base
            self.ov = base.copy(linkback=True)
        elif mode == "mixin":
            a, b = Ovld(), Ovld()
            for m in self.methods[:split]:
                a.register(self.make(m), priority=m.get("prio", 0))
            for m in self.methods[split:]:
                b.register(self.make(m), priority=m.get("prio", 0))
            self.parts = (a, b)
            self.ov = Ovld(mixins=[a, b])
        else:
            self.ov = Ovld()
            for m in self.methods:
                self.ov.register(self.make(m), priority=m.get("prio", 0))
        if mode == "method":
            self.cls = type("Holder", (), {"f": self.ov})
            self.instance = self.cls()
        self.bind()
        return self.ov

    def bind(self):
        d = getattr(self.ov, "dispatch", None)
        if d is not None:
            self.ns["__F"] = d

    @property
    def fn(self):
        """what a user calls: the dispatch *function* (``@ovld def f`` binds f to it), not the Ovld object -
        its code is swapped by compile(), so it does not pass through Ovld.__call__"""
        return getattr(self.ov, "dispatch", None) or self.ov

    @property
    def names(self):
        o = self.ov
        return tuple(x for x in (getattr(o, "shortname", None), getattr(o, "__name__", None)) if x)

    def args(self, call):
        pos = [T.value(v, self.env) for v in call.get("pos", [])]
        kw = {k: T.value(v, self.env) for k, v in (call.get("kw") or {}).items()}
        alt = tuple(T.value(v, self.env) for v in call.get("alt", []))
        return pos, kw, alt

    def call(self, call, args=None):
        pos, kw, alt = args or self.args(call)
        self.vf.alt = alt
        if self.instance is not None:
            inst = self.instance
            return outcome(lambda: inst.f(*pos, **kw), self.vf, self.names)
        f = self.fn
        return outcome(lambda: f(*pos, **kw), self.vf, self.names)

    def resolve(self, call, args=None):
        """o.resolve(*positional) -> mid of the handler, or error kind."""
        from .methods import mid_of_handler
        from .observe import classify_exception
        pos, kw, alt = args or self.args(call)
        try:
            h = self.ov.resolve(*pos)
        except Exception as e:  # noqa: BLE001
            return classify_exception(e, self.vf, self.names)
        return ("handler", mid_of_handler(h), getattr(h, "__name__", ""))

    def close(self):
        forget(self.files)
        self.files = []


def norm(out):
    """comparable form of an outcome (drops nothing but keeps it hashable / JSON-able)"""
    def j(x):
        if isinstance(x, (tuple, list)):
            return tuple(j(y) for y in x)
        if isinstance(x, (int, str, float, bool)) or x is None:
            return x
        return repr(x)[:60]
    return j(out)
