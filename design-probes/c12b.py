import itertools, typing, collections, collections.abc as cabc
from typing import Literal
from ovld.mro import typeorder, Order
from ovld.types import Union, Intersection, Exactly, StrictSubclass, HasMethod, normalize_type
from ovld import Dependent
from ovld.dependent import Equals, ProductType
class A: pass
class B(A): pass
class C(A): pass
class D(B, C): pass
class E: pass
def pos(x): return x > 0
def mk():
    """build the closure twice to get equal-but-not-identical copies"""
    base = [object, A, B, C, D, E, int, str, bool, cabc.Iterable, cabc.Sized]
    l1 = []
    for x, y in itertools.permutations([A, B, C, E, int, str], 2):
        l1.append(("U", Union[x, y], (x, y))); l1.append(("I", Intersection[x, y], (x, y)))
    atoms = [("X", Exactly[x], (x,)) for x in [A, B, D, int]] + [("S", StrictSubclass[x], (x,)) for x in [A, B, int]]
    atoms += [("T", type[x], (x,)) for x in [A, B, int, object]]
    atoms += [("H", HasMethod["__len__"], ())]
    gens = [("G", list[int], (list,)), ("G", list[A], (list,)), ("G", list[B], (list,)), ("G", dict[str, int], (dict,)), ("G", cabc.Iterable[int], (cabc.Iterable,))]
    deps = [("D", Dependent[int, pos], (int,)), ("D", Dependent[A, pos], (A,)), ("D", Dependent[object, pos], (object,)), ("L", normalize_type(Literal[0], None), (int,)), ("L", normalize_type(Literal[0, 1], None), (int,)), ("L", normalize_type(Literal["a"], None), (str,)), ("P", normalize_type(tuple[int, str], None), (tuple,)), ("P", normalize_type(tuple[A], None), (tuple,))]
    # nested
    nested = [("U", Union[Intersection[A, E], B], (Intersection[A, E], B)), ("I", Intersection[Union[A, E], C], (Union[A, E], C)), ("U", Union[Exactly[A], int], (Exactly[A], int)), ("U", Union[Equals[0], str], (Equals[0], str)), ("I", Intersection[int, Equals[0]], (int, Equals[0]))]
    return [("C", b, ()) for b in base] + l1 + atoms + gens + deps + nested
c1, c2 = mk(), mk()
bad = collections.defaultdict(list)
for (k, t, parts), (_, t2, _) in zip(c1, c2):
    try:
        if typeorder(t, t2) is not Order.SAME: bad["reflexive-copy:" + k].append((t, typeorder(t, t2)))
    except Exception as e: bad["EXC-refl:" + k + type(e).__name__].append(t)
    for p in parts:
        try: o = typeorder(t, p); o2 = typeorder(p, t)
        except Exception as e: bad["EXC:" + k + type(e).__name__].append((t, p)); continue
        exp = {"U": Order.MORE, "I": Order.LESS, "D": Order.LESS, "L": Order.LESS, "G": Order.LESS, "P": Order.LESS}.get(k)
        if exp is not None and (o is not exp or o2 is not exp.opposite()):
            bad[f"member-law:{k}"].append((t, p, o.name, o2.name))
# generic argument-wise
for a, b, exp in [(list[B], list[A], Order.LESS), (list[A], list[B], Order.MORE), (list[int], list[A], Order.NONE), (dict[str, B], dict[str, A], Order.LESS), (dict[str, B], dict[object, A], Order.LESS), (dict[A, B], dict[B, A], Order.NONE), (list[list[B]], list[list[A]], Order.LESS)]:
    if typeorder(a, b) is not exp: bad["generic-argwise"].append((a, b, typeorder(a, b).name, exp.name))
for k, v in bad.items(): print(k, len(v), v[:4])
print("done", len(c1))
