from ovld import ovld, Dependent
import traceback

@ovld
def f(*, k1: float = 1.5, k2: int):
    return ("plain", k1, k2)

@ovld
def f(*, k1: Dependent[float, lambda v: v > 100] = 200.0, k2: int):
    return ("dependent", k1, k2)

@ovld
def f(*, k2: str):
    return ("str", k2)

for kw in ({"k2": 3}, {"k1": 500.0, "k2": 3}, {"k1": 2.0, "k2": 3}, {"k2": "s"}):
    try:
        print(kw, "->", f(**kw))
    except Exception as e:
        print(kw, "->", type(e).__name__, e)
        traceback.print_exc(limit=-3)
