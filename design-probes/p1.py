from ovld import Ovld
class X: pass
class X2(X): pass
class Y: pass
class C(X2, Y): pass
class Q: pass
class R: pass

def build(extra):
    o = Ovld()
    @o.register
    def f(a: Y, b: Q): return "YQ"
    @o.register
    def f(a: X, b: Q): return "XQ"
    if extra == "arity":
        @o.register
        def f(a: X2): return "X2"
    elif extra == "other":
        @o.register
        def f(a: X2, b: R): return "X2R"
    return o

for extra in (None, "arity", "other"):
    o = build(extra)
    try:
        print(extra, o(C(), Q()))
    except TypeError as e:
        print(extra, "ERR", str(e).splitlines()[0])
