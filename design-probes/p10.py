from ovld import Ovld, call_next, recurse, ovld
def show(label, fn):
    try: print(label, "->", fn())
    except BaseException as e: print(label, "-> EXC", type(e).__name__, str(e).splitlines()[0][:120])

def build(pos):
    o = Ovld()
    def m1(x: int): return "int"
    def m2(x: str): return "str"
    def m3(x: float): return "float"
    def bad(xs: list):
        cn = call_next
        return [cn(x) for x in xs]
    ms = [m1, m2, m3]
    ms.insert(pos, bad)
    for m in ms: o.register(m)
    return o.dispatch, bad
for pos in range(4):
    d, bad = build(pos)
    show(f"pos{pos} first", lambda: d(1))
    show(f"pos{pos} second int", lambda: d(1))
    show(f"pos{pos} second str", lambda: d("s"))
    show(f"pos{pos} second float", lambda: d(1.5))
    show(f"pos{pos} unregister bad", lambda: d.unregister(bad))
    show(f"pos{pos} after: ", lambda: (d(1), d("s"), d(1.5)))
