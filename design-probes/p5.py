from ovld import Ovld, Dependent
from ovld.types import Union, Intersection
seen=[]
def P(x):
    seen.append(("P",x)); return x > 0
def Q(s):
    seen.append(("Q",s)); return s.startswith("a")
def show(label, fn):
    try: print(label, "->", fn())
    except Exception as e: print(label, "-> EXC", type(e).__name__, str(e).splitlines()[0][:150])

o = Ovld()
@o.register
def f(x: Dependent[int, P] | Dependent[str, Q]): return "dep"
@o.register
def f(x: object): return "obj"
show("f(1)", lambda: o(1)); print(seen); seen.clear()
show("f('abc')", lambda: o("abc")); print(seen); seen.clear()
show("f('zzz')", lambda: o("zzz")); print(seen); seen.clear()
show("f(-1)", lambda: o(-1)); print(seen); seen.clear()
show("f(2.5)", lambda: o(2.5)); print(seen); seen.clear()
import linecache
for k,v in list(linecache.cache.items()):
    if k.startswith("<ovld") and "DEPENDENT" in "".join(v[2]): print("".join(v[2]))
