from ovld import ovld, Dependent

@ovld
def f(xs: Dependent[list[int], lambda xs: len(xs) > 0]):
    assert all(isinstance(x, int) for x in xs), f"entered with {xs!r}"
    return "non-empty list of ints"
@ovld
def f(xs: object):
    return "other"

out = []
for v in ([1, 2], [], ["a"], "s"):
    try:
        out.append(f(v))
    except AssertionError as e:
        out.append(f"VIOLATION {e}")
print(out)
print("PASS" if out == ["non-empty list of ints", "other", "other", "other"] else "FAIL")
