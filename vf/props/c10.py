"""C10 - value-dependent methods run exactly when their condition holds.

Monitors, clause by clause:
  (a) guard   - the harness-owned conditions log every value they are evaluated on; a value that is not an
                instance of the bound is an alarm;
  (b) sound   - at the entry of every generated body each dependent parameter's value satisfies bound and
                condition (C01's monitor restricted to dependent parameters);
  (c) absent  - outcome == reference model, in which a dependent method whose condition is false for the call
                is simply not applicable ('dispatch continues as if that method were absent'), with the error
                *kind* checked ('Ambiguous' where the next rank is tied, 'No method' when nothing is left);
  (d) prefer  - model: a dependent type is more specific than its bound, the bound's subclasses and superclasses;
  (e) ambig   - model: two dependent types on the same bound are unordered; both holding => 'Ambiguous'.
Dependent types with different bounds are unordered-or-ordered depending on the bounds (unspecified -> skipped).
The dispatcher strategy each case exercised (if-chain / lookup table / counting) is read back from the
generated source in linecache for the evidence.
"""
import linecache

from .. import boot  # noqa: F401
from .. import frozen, gen, tx as T
from .. import refmodel as R
from ..methods import Default
from ..observe import pin
from ..prog import Program, norm

ID = "C10"
LEVEL = "exploration"
RULE = ("cases = random mixtures of Dependent[bound, predicate] (predicates with known truth tables over bounds "
        "object / int / bool / MyInt / str / user classes), Literal (1-3 values, also >= 4 Literal methods and "
        "overlapping values) and static methods, 1-2 dispatched positions, priorities; one case in sixteen is a set of "
        "parametrised @dependent_check patterns with typing.Any wildcards on one bound, called on every tuple over the "
        "pattern alphabet; a quarter of the cases "
        "wrap dependent types in unions / intersections with classes and class-check types; 40-60 calls per case over "
        "a value corpus on both sides of every condition; distinct_nontrivial = distinct (program, call) pairs in "
        "which >= 1 dependent method is a candidate by type and >= 2 methods are candidates")
ASSUMPTIONS = [
    "harness predicates are total and their truth tables are known (vf/tx.py:VALUE_PREDS)",
    "cross-type Literal equality and dependent types with different bounds are unspecified",
    "for unions / intersections containing dependent members only clauses (a) and (b) and crash-freedom are asserted",
]
REPORT_COUNTERS = ["programs", "calls", "calls_model_checked", "predicate_evaluations", "dependent_entries_checked",
                   "strategy_ifchain", "strategy_table", "strategy_counting", "expected_ambiguous", "expected_fallthrough",
                   "composite_programs", "isect_vs_subclass_calls", "programs_one_condition_under_two_bounds",
                   "programs_wildcard_patterns", "wildcard_calls_two_patterns_hold", "wildcard_expected_ambiguous"]


def plan(tier):
    n = 3200 if tier == "quick" else 64000
    return {"cases": n, "params": {}, "timeout_s": 1500 if tier == "quick" else 7200,
            "min": {"calls_model_checked": 20_000, "predicate_evaluations": 20_000, "dependent_entries_checked": 5_000,
                    
                    "expected_ambiguous": 300, "expected_fallthrough": 1_000,
                    "wildcard_calls_two_patterns_hold": 500, "wildcard_expected_ambiguous": 50}}


VALUES = [["v", 1000], ["v", -1], ["v", 0], ["v", 1], ["v", 2], ["v", 3], ["v", 4], ["v", 7], ["v", True], ["v", False],
          ["mi", 2], ["mi", 9], ["mi", 3], ["v", "a"], ["v", "ab"], ["v", "b"], ["v", 2.5], ["v", None]]


def _gen_t(rng, names, composite):
    r = rng.random()
    if r < 0.38:
        return gen.gen_dep_tx(rng, names)
    if r < 0.4 and rng.random() < 0.25:
        # one @dependent_check condition object (declared on int) used bare here and under another bound elsewhere
        return ["D", rng.choice(["int", "int", "object", "float", "MyInt"]), rng.choice(["truthy", "falsy"]), "shared"]
    if r < 0.42:
        # a condition over a union bound, given the way a user writes it (typing.Union / Optional-like)
        a, b = rng.sample(["int", "str", "MyInt", "float"] + names, 2)
        return ["D", ["U", a, b], rng.choice(["truthy", "falsy", "always", "never"])]
    if r < 0.5:
        return ["L", *rng.sample([0, 1, 2, 3, 4, 7, 1000], rng.choice([1, 1, 2, 3]))]
    if composite and r < 0.7:
        a = gen.gen_dep_tx(rng, names)
        b = rng.choice([gen.gen_dep_tx(rng, names), rng.choice(names + ["str", "int", "MyInt"]), ["H", "bit_length"],
                        ["X", "int"]])
        if T.tname(a) == T.tname(b):
            return a
        if rng.random() < 0.2 and a[0] == "D":
            # (A & B) & C : a chain of intersections with a value condition somewhere in it
            x, y = rng.sample(["int", "object", "MyInt", ["H", "bit_length"], ["D", "int", "ge3"], ["D", "object", "truthy"]], 2)
            return rng.choice([["I", ["I", a, x], y], ["I", x, ["I", y, a]], ["I", ["I", x, y], a]])
        if rng.random() < 0.25 and a[0] == "D":
            # (A & B) | C : an intersection of dependent types as a member of a union
            c = rng.choice([gen.gen_dep_tx(rng, names), rng.choice(["str", "int", "MyInt"] + names)])
            inner = ["I", a, b] if (isinstance(b, str) or b[0] in ("H", "D", "X")) else a
            return ["U", inner, c] if T.tname(inner) != T.tname(c) else inner
        if rng.random() < 0.7:
            return ["U", a, b]
        return ["I", a, b] if (isinstance(b, str) or b[0] in ("H", "D", "X")) and a[0] == "D" else ["U", a, b]
    return rng.choice(names + ["int", "object", "bool", "MyInt", "str", "float"])


def _gen_isect_vs_subclass(rng):
    """`A & Dependent[B, cond]` next to a method on a strict subclass S of A (B is A or object), one position.
    Documented: a dependent type is more specific than its bound and than the bound's subclasses, an intersection is
    more specific than each of its members - so when the condition holds the intersection method is preferred."""
    hier = [{"name": "K0", "bases": []}, {"name": "K1", "bases": ["K0"]}, {"name": "K2", "bases": ["K1"]}]
    A, S, vals = rng.choice([("int", "bool", [["v", True], ["v", False], ["v", 2], ["v", 0]]),
                             ("int", "MyInt", [["mi", 2], ["mi", 3], ["mi", 0], ["v", 2], ["v", 3]]),
                             ("K0", "K1", [["i", "K1"], ["i", "K2"], ["i", "K0"]]),
                             ("K0", "K2", [["i", "K2"], ["i", "K1"], ["i", "K0"]]),
                             ("K1", "K2", [["i", "K2"], ["i", "K1"]])])
    B = rng.choice([A, "object"])
    preds = ["truthy", "falsy", "always", "never"] + (["even", "odd", "ge3"] if A == "int" else [])
    pred = rng.choice(preds)
    isect = ["I", A, ["D", B, pred]] if rng.random() < 0.5 else ["I", ["D", B, pred], A]
    methods = [{"mid": 0, "pos": [{"n": "a0", "t": isect}], "kw": [], "prio": 0, "kind": "leaf"},
               {"mid": 1, "pos": [{"n": "a0", "t": S}], "kw": [], "prio": 0, "kind": "leaf"},
               {"mid": 2, "pos": [{"n": "a0", "t": "object"}], "kw": [], "prio": -1, "kind": "leaf"}]
    if rng.random() < 0.5:
        methods[0], methods[1] = methods[1], methods[0]
    calls = [{"pos": [v], "kw": {}} for v in vals + [["v", "s"], ["v", None]]]
    return {"hier": hier, "methods": methods, "npos": 1, "composite": True, "isect_vs_subclass": [isect, S], "calls": calls}


def _gen_wild(rng):
    """Several parametrised `@dependent_check` types with `typing.Any` wildcards on one bound (docs/dependent.md,
    "Wildcards": `Shape[2, Any]` next to `Shape[2, 2]`), patterns with wildcards in different places and numbers, next to
    the bound, `object`, another condition on the same bound; every tuple over the pattern alphabet is called."""
    n = rng.choice([2, 3, 3, 3])
    alpha = [1, 2] if n == 3 else [1, 2, 3]
    pats = set()
    for _ in range(rng.randint(2, 6)):
        pats.add(tuple(rng.choice(alpha + ["*", "*"]) for _ in range(n)))
    if rng.random() < 0.5:
        # a pair that is general in complementary places, with unequal numbers of wildcards
        base = [rng.choice(alpha) for _ in range(n)]
        k = rng.randrange(n)
        pats.add(tuple("*" if i == k else b for i, b in enumerate(base)))
        pats.add(tuple(b if i == k else "*" for i, b in enumerate(base)))
    npos = rng.choice([1, 1, 1, 2])
    second = ["object", "int", "bool", ["D", "int", "even"]]
    methods = []
    for p_ in sorted(pats, key=str):
        pos = [{"n": "a0", "t": ["W", *p_]}] + [{"n": "a1", "t": rng.choice(second)} for _ in range(npos - 1)]
        methods.append({"pos": pos, "kw": [], "prio": rng.choice([0, 0, 0, 0, 1]), "kind": "leaf"})
    for t in rng.sample(["tuple", "object", ["D", "tuple", "truthy"], ["D", "tuple", "short"], ["W", *["*"] * n]], rng.randint(1, 3)):
        pos = [{"n": "a0", "t": t}] + [{"n": "a1", "t": rng.choice(second)} for _ in range(npos - 1)]
        methods.append({"pos": pos, "kw": [], "prio": rng.choice([0, 0, -1]), "kind": "leaf"})
    rng.shuffle(methods)
    for i, m in enumerate(methods):
        m["mid"] = i
    import itertools
    tuples = [["t", *[["v", x] for x in c]] for c in itertools.product(alpha, repeat=n)]
    tuples += [["t", ["v", 1]], ["t"], ["v", 1], ["v", "a"], ["t", *[["v", 9]] * n], ["t", *[["v", True]] * n]]
    if npos == 1:
        calls = [{"pos": [v], "kw": {}} for v in tuples]
    else:
        calls = [{"pos": [v, rng.choice([["v", 2], ["v", 3], ["v", True], ["v", "a"]])], "kw": {}} for v in tuples]
    return {"hier": [], "methods": methods, "npos": npos, "composite": False, "wild": True, "calls": calls}


def gen_case(rng, params, idx):
    if idx % 16 == 11:
        return _gen_isect_vs_subclass(rng)
    if idx % 16 == 6:
        return _gen_wild(rng)
    if idx % 16 in (2, 10):
        from .c01 import _gen_keyed_group
        spec = dict(_gen_keyed_group(rng), composite=False)
        for m in spec["methods"]:
            m["kind"] = "leaf"
        return spec
    composite = idx % 4 == 3
    many_literals = idx % 4 == 2
    hier = gen.gen_hierarchy(rng, rng.randint(1, 3), attrs=False)
    names = [s["name"] for s in hier]
    npos = rng.choice([1, 1, 1, 2])
    methods = []
    if many_literals:
        if rng.random() < 0.4:
            npos = 3
        vals = rng.sample([0, 1, 2, 3, 4, 7, -1], rng.randint(4, 6))
        # positions >= 1 trade off against each other (a value condition on one, a narrower class on the other),
        # so that several Literal methods stay in one rank although some carry a second value condition
        others = ["object", "object", "int", "MyInt", ["L", 1], ["L", "a"], ["D", "int", "even"], "str"]
        for i, v in enumerate(vals):
            v2 = rng.choice([0, 1, 2, 3, 4, 7])
            lit = ["L", v] if rng.random() < 0.7 or v2 == v else ["L", v, v2]
            pos = [{"n": "a0", "t": lit}] + [{"n": f"a{j}", "t": rng.choice(others if npos == 3 else ["object", "int"])}
                                              for j in range(1, npos)]
            methods.append({"mid": i, "pos": pos, "kw": [], "prio": 0, "kind": "leaf"})
    static_only = many_literals and rng.random() < 0.6
    for i in range(len(methods), len(methods) + rng.randint(2, 6)):
        if static_only:
            pos = [{"n": f"a{j}", "t": rng.choice(["int", "object", "bool", "MyInt", "str"])} for j in range(npos)]
        else:
            pos = [{"n": f"a{j}", "t": _gen_t(rng, names, composite)} for j in range(npos)]
        methods.append({"mid": i, "pos": pos, "kw": [], "prio": rng.choice([0, 0, 0, 1]), "kind": "leaf"})
    kwflavour = idx % 8 == 5
    if kwflavour:
        # value-dependent annotations on keyword-only parameters
        # ... every fourth such program calls the parameter like the condition it is annotated with (`even_int: Dependent[
        # int, even_int]`): the generated checking code must not confuse the argument with the object it injects
        kwname = "even_int" if idx % 32 == 5 else "k1"
        for m in methods:
            if rng.random() < 0.7:
                m["kw"] = [{"n": kwname, "t": rng.choice([["L", 1], ["L", 2, 3], ["D", "int", "even"], ["D", "int", "ge3"], "int", "object"]),
                            "req": rng.random() < 0.5}]
            if rng.random() < 0.5:
                m["pos"][-1]["opt"] = True      # a trailing optional positional the caller may omit
    shared = [(m, j) for m in methods for j, p_ in enumerate(m["pos"])
              if isinstance(p_["t"], list) and p_["t"][0] == "D" and len(p_["t"]) > 3]
    if shared:
        # the same condition object under its own bound (bare) *and* under another bound, in one program
        m0, j = shared[0]
        t0 = m0["pos"][j]["t"]
        other = ["D", rng.choice(["object", "float", "MyInt"]) if t0[1] == "int" else "int", t0[2], "shared"]
        pos = [dict(p_) for p_ in m0["pos"]]
        pos[j]["t"] = other
        methods.append({"mid": len(methods), "pos": pos, "kw": [], "prio": rng.choice([0, 0, 1]), "kind": "leaf"})
    spec = {"hier": hier, "methods": methods, "npos": npos, "composite": composite}
    if shared:
        spec["shared_condition"] = True
    vals = VALUES + [["i", n] for n in names]
    if kwflavour:
        cg = gen.CallGen(spec, vals)
        calls = [cg.call(rng, p_kw=0.8) for _ in range(60)]
        for c in calls:
            c.pop("alt", None)
            c["pos"] = c["pos"][:npos] if len(c["pos"]) >= npos else cg.args(rng, npos)
            if rng.random() < 0.4:
                c["pos"] = c["pos"][:-1]
    elif npos == 1:
        calls = [{"pos": [v], "kw": {}} for v in vals]
    else:
        cg = gen.CallGen(spec, vals)
        calls = [{"pos": cg.args(rng, npos), "kw": {}} for _ in range(60)]
    spec["calls"] = calls
    return spec


def _modelled(methods):
    # outcome-vs-model needs the frozen transcription to classify F1: classes, Literal, Dependent over a class bound
    return all(isinstance(p["t"], str) or p["t"][0] in ("L", "W") or (p["t"][0] == "D" and isinstance(p["t"][1], str))
               for m in methods for p in m["pos"] + m.get("kw", []))


def check_case(spec, res):
    pin()
    env = T.Env(spec["hier"])
    try:
        prog = Program(spec, env=env, tag="c10")
        prog.ov.compile()
    except Exception as e:  # noqa: BLE001
        res.count("unbuildable_" + type(e).__name__)
        return
    methods = spec["methods"]
    by = {m["mid"]: m for m in methods}
    res.count("programs")
    if spec["composite"]:
        res.count("composite_programs")
    if spec.get("shared_condition"):
        res.count("programs_one_condition_under_two_bounds")
    if spec.get("wild"):
        res.count("programs_wildcard_patterns")
    res.sample({k: spec[k] for k in ("hier", "methods", "npos")} | {"calls": spec["calls"][:3]},
               "composite" if spec["composite"] else "plain")
    modelled = _modelled(methods)
    state = {"call": None}

    def on_enter(mid, loc):
        m = by[mid]
        for p in m["pos"] + m.get("kw", []):
            if isinstance(loc[p["n"]], Default):
                continue
            if T.is_valuedep(p["t"]):
                res.count("dependent_entries_checked")
                v = loc[p["n"]]
                ok = T.accepts(p["t"], env, v)
                if ok is False:
                    res.violation("dependent-method-entered-on-excluded-value", [sorted(T.heads(p["t"]))], spec,
                                  observed={"call": state["call"], "method": mid, "param": p["n"],
                                            "annotation": T.tname(p["t"]), "value": repr(v)[:40]},
                                  acceptable="bound and condition hold")

    prog.vf.on_enter = on_enter
    index = {m["mid"]: i for i, m in enumerate(methods)}
    pk = [[T.tname(p["t"]) for p in m["pos"]] + [m["prio"]] for m in methods]
    for call in spec["calls"]:
        state["call"] = call
        env.predlog.clear()
        vals = prog.args(call)
        out = prog.call(call, vals)
        res.ev()
        res.count("calls")
        res.count("predicate_evaluations", env.predlog.value_count)
        # (a) guard
        for predname, bname, ok, rep in env.predlog.value_calls:
            if ok is not True:
                res.violation("condition-evaluated-outside-bound", [bname if bname in T.Env.BUILTINS else "user", predname],
                              spec, observed={"call": call, "predicate": predname, "bound": bname, "value": rep},
                              acceptable="only instances of the bound reach the condition")
                break
        obs = _obs(out)
        if obs[0] == "exc":
            finding = None
            if obs[1] == "CycleError":
                from .c06 import _asymmetric_pairs
                if _asymmetric_pairs(dict(spec, extras=[]), env):
                    finding = "F8"     # the real order relation is asymmetric / cyclic on this program's types
            res.violation("dispatch-crash", [obs[1], obs[2][:40] if obs[1] != "CycleError" else ""], spec,
                          observed={"call": call, "error": list(obs)},
                          acceptable="a method runs or a dispatch TypeError is raised", finding=finding)
            continue
        if spec.get("isect_vs_subclass"):
            isect, S = spec["isect_vs_subclass"]
            v0 = vals[0][0]
            in_i = T.accepts(isect, env, v0)
            want = ("win", [m["mid"] for m in methods if m["pos"][0]["t"] == isect][0]) if in_i is True else \
                (("win", [m["mid"] for m in methods if m["pos"][0]["t"] == S][0]) if isinstance(v0, env.cls(S)) else
                 ("win", [m["mid"] for m in methods if m["prio"] == -1][0]))
            res.count("isect_vs_subclass_calls")
            if in_i is not None and obs != want:
                res.violation("intersection-with-dependent-vs-subclass", [obs[0], bool(in_i)], spec,
                              observed={"call": call, "outcome": obs}, acceptable=list(want))
            continue
        if not modelled:
            continue
        # (c)(d)(e) reference model
        exp = R.resolve(methods, call, env, (vals[0], vals[1]), index)
        if exp == R.WILD:
            res.skip_unspec()
            continue
        res.count("calls_model_checked")
        type_cands = [m for m in methods if _type_candidate(m, vals[0], env)]
        if len(type_cands) >= 2 and any(frozen._is_dep(m) for m in type_cands):
            res.nontrivial([pk, [T.vname(v) for v in call["pos"]]])
        if exp[0] == "amb":
            res.count("expected_ambiguous")
        if spec.get("wild"):
            nh = sum(1 for m in methods if m["pos"][0]["t"][0] == "W" and T.accepts(m["pos"][0]["t"], env, vals[0][0]) is True)
            if nh >= 2:
                res.count("wildcard_calls_two_patterns_hold")
                if exp[0] == "amb":
                    res.count("wildcard_expected_ambiguous")
        if any(frozen._is_dep(m) and R.applicable(m, call, env, (vals[0], vals[1])) is False for m in type_cands) and exp[0] == "win":
            res.count("expected_fallthrough")
        e = ("win", exp[1]) if exp[0] == "win" else (exp[0],)
        if obs != e:
            fro = frozen.outcome(methods, call, env)
            finding = "F1" if fro is not None and tuple(fro) == obs else None
            res.violation("outcome-vs-model", [obs[0], e[0]], spec, observed={"call": call, "outcome": obs},
                          acceptable=exp, finding=finding)
    # strategies actually emitted for this program: read back the source of every specialised dispatcher
    # that ended up in the function's table
    seen = set()
    for fn in list(prog.ov.map.values()):
        code = getattr(fn, "__code__", None)
        if code is None or "specialized_dispatch" not in getattr(fn, "__name__", "") or id(fn) in seen:
            continue
        seen.add(id(fn))
        ent = linecache.cache.get(code.co_filename)
        src = "".join(ent[2]) if ent else ""
        if ".get(" in src and "HANDLER = " in src:
            res.count("strategy_table")
        elif "SUMMATION" in src:
            res.count("strategy_counting")
        else:
            res.count("strategy_ifchain")
    prog.close()


def _type_candidate(m, pos_vals, env):
    if len(m["pos"]) != len(pos_vals):
        return False
    for p, v in zip(m["pos"], pos_vals):
        t = p["t"]
        if isinstance(t, str):
            if not isinstance(v, env.cls(t)):
                return False
        elif t[0] in ("D", "L", "W"):
            b = T.bound_of(t, env)
            if isinstance(b, str) and not isinstance(v, env.cls(b)):
                return False
    return True


def _obs(out):
    if out[0] == "ran":
        t = out[2]
        if isinstance(t, tuple) and t and t[0] == "m":
            return ("win", t[1])
        return ("weird",)
    if out[0] in ("none", "bind"):
        return ("none",)
    if out[0] == "amb":
        return ("amb",)
    if out[0] == "exc":
        return ("exc", out[1], out[2])
    return tuple(str(x) for x in out[:3])
