from typing import Literal
from h import *
from ovld import Dependent
import linecache
class MyInt(int): pass
def even(x): return x%2==0
def fa(x): return False
def tr(x): return True
def lt5(x): return x<5
P=["a0","a1"]
specs=[dict(mid=0,params=P,anns={"a0":Dependent[int,even],"a1":Literal[3,0]},body=["return 0"]),
       dict(mid=1,params=P,anns={"a0":MyInt,"a1":Dependent[bool,fa]},body=["return 1"]),
       dict(mid=2,params=P,anns={"a0":bool,"a1":int},body=["return 2"]),
       dict(mid=3,params=P,anns={"a0":Dependent[MyInt,fa],"a1":int},body=["return 3"],prio=1),
       dict(mid=4,params=P,anns={"a0":Dependent[int,tr],"a1":MyInt},body=["return 4"]),
       dict(mid=5,params=P,anns={"a0":Dependent[int,lt5],"a1":MyInt},body=["return 5"]),
       dict(mid=6,params=P,anns={"a0":object,"a1":bool},body=["return 6"])]
o=build(specs)
print(outcome(lambda: o(True,True)))
o.display_resolution(True,True)
for k,v in linecache.cache.items():
    if k.startswith("<ovld") and "DEPENDENT" in "".join(v[2]): print("".join(v[2]))
