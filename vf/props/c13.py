"""C13 - type-level matching agrees with the documented meaning of each type.

Monitor: for every generated non-value-dependent type T (closure of class / ABC / protocol /
Union / Intersection / Exactly / StrictSubclass / HasMethod / class_check / Deferred to depth 3)
and every class C of a corpus:
  (m1) subclasscheck(C, normalize(T))  ==  documented meaning of T on C       (tx.cls_sat)
  (m2) a method declared on T (annotation written the way a user writes it) runs for an
       instance of C  <=>  meaning(T, C)     - observed from inside the method body
  (l1) subclasscheck(T, T) is True
  (l2) transitivity in the form dispatch relies on, only for T whose meaning is closed
       under subclassing:  issubclass(a, b) and subclasscheck(b, T)  =>  subclasscheck(a, T)
  (l3) subclasscheck == issubclass on all pairs of plain classes / ABCs / protocols
  (l4) argument-wise covariance on parametrised generics and type[...] (same arity)
"""
import importlib
import typing

from .. import boot  # noqa: F401
from .. import gen, tx as T
from ..methods import make_method, forget
from ..observe import VF, outcome, pin

import ovld
from ovld import Ovld
from ovld.mro import subclasscheck
from ovld.types import normalize_type

ID = "C13"
LEVEL = "exploration"
RULE = ("cases = random class DAG (4-7 classes, MI, ABC registration, protocol / subclasshook members) "
        "x random non-value-dependent types of nesting depth <= 3 x class corpus (all user classes + "
        "builtins + lazily imported Deferred module classes); every (type, class) pair is evaluated by "
        "subclasscheck and by a real dispatch; distinct_nontrivial = distinct (subclass relation, type "
        "expression) pairs whose type nests >= 2 constructors")
ASSUMPTIONS = [
    "Python's issubclass / hasattr define the meaning of plain classes, ABCs, protocols and HasMethod",
    "the documented meaning of each constructor is transcribed in vf/tx.py:cls_sat from docs/types.md",
    "user class_check predicates are total and side-effect free",
]
REPORT_COUNTERS = ["pairs_subclasscheck", "pairs_dispatch", "pairs_dispatch_two_parameters", "dispatch_retried_after_transient_hook_fault", "law_transitive", "law_issubclass",
                   "law_covariance", "deferred_before_import", "deferred_after_import", "late_registration_checked",
                   "deferred_submodule_imported_late", "class_objects_against_the_class_type"]

CLOSED_HEADS = {"U", "I", "S", "H"}  # meanings closed under subclassing (with class atoms)


def plan(tier):
    n = 480 if tier == "quick" else 9600
    return {"cases": n, "params": {"ntypes": 40 if tier == "quick" else 60},
            "timeout_s": 900 if tier == "quick" else 3600,
            "min": {"pairs_subclasscheck": 50_000, "pairs_dispatch": 50_000, "pairs_dispatch_two_parameters": 50_000, "depth2_types": 2_000,
                    "law_covariance": 500, "deferred_after_import": 200, "deferred_submodule_imported_late": 20}}


def _closed(tx):
    if isinstance(tx, str):
        return True
    if tx[0] in ("X", "CC"):
        return False
    if tx[0] in ("H", "Df"):
        return True
    if tx[0] == "S":
        return True
    return all(_closed(a) for a in tx[1:])


def gen_case(rng, params, idx):
    hier = gen.gen_hierarchy(rng, rng.randint(3, 7))
    atoms = gen.class_atoms(hier)
    types = []
    for _ in range(params["ntypes"]):
        types.append(gen.gen_static_tx(rng, atoms, rng.choice([1, 2, 2, 3, 3])))
    dmod = None
    if rng.random() < 0.5:
        pkg = rng.random() < 0.5
        dmod = gen.fresh_deferred_module(f"c13_{idx}_", package=pkg)
        # in a package the class may be named through its defining submodule, a re-exporting one, or the package
        paths = {"Thing": ["base.Thing", "api.Thing", "Thing"], "Sub": ["impl.Sub", "api.Sub", "Sub"],
                 "Other": ["base.Other", "api.Other"], "Lazy": ["extra.Lazy"]}
        # (Lazy lives in a submodule that the package does not import by itself)
        for cname in rng.sample(["Thing", "Sub", "Other"] + (["Lazy", "Lazy"] if pkg else []), 2):
            d = ["Df", f"{dmod}.{rng.choice(paths[cname]) if pkg else cname}"]
            types.append(d)
            types.append([rng.choice(["U", "I"]), d, rng.choice(atoms)])
    user = [s["name"] for s in hier]
    gens = []
    for _ in range(6):
        a, b = rng.choice(user + ["int", "bool", "object"]), rng.choice(user + ["int", "bool", "object"])
        shape = rng.choice(["list", "dict", "seq", "type", "typelist", "nest"])
        gens.append([shape, a, b])
    return {"hier": hier, "types": types, "corpus": user + ["object", "int", "bool", "str", "MyInt", "NoneType"],
            "dmod": dmod, "generics": gens}


def _instance(env, name):
    c = env.cls(name)
    if c is type(None):
        return None
    return c()


def check_case(spec, res):
    pin()
    env = T.Env(spec["hier"])
    vf = VF()
    corpus = [(n, env.cls(n)) for n in spec["corpus"]]
    files = []
    rel = gen.subclass_relation(spec["hier"])
    res.sample(spec, "with-deferred" if spec.get("dmod") else "plain")

    # build every annotation *before* the Deferred module is imported
    built = []
    for tx in spec["types"]:
        A = T.ann(tx, env)
        N = normalize_type(A, None)
        o = Ovld()
        mt, f1 = make_method({"mid": 1, "pos": [{"n": "x"}]}, env, vf, ["return 1"], tag="c13",
                             ann_override={"x": A})
        ma, f2 = make_method({"mid": 0, "pos": [{"n": "x", "t": "object"}]}, env, vf, ["return 0"], tag="c13")
        o.register(mt)
        o.register(ma, priority=-1)
        # the same type as the *first* of two parameters of a function that has no catch-all
        o2 = Ovld()
        m2, f3 = make_method({"mid": 2, "pos": [{"n": "x"}, {"n": "y", "t": "int"}]}, env, vf, ["return 2"], tag="c13",
                             ann_override={"x": A})
        o2.register(m2)
        files += [f1, f2, f3]
        built.append((tx, A, N, o, o2))

    dclasses = []
    lazy_mod = None
    if spec.get("dmod"):
        import sys
        pre = spec["dmod"] in sys.modules
        if not pre:
            # before import nothing in the corpus can match a Deferred type of that module
            for tx, A, N, o, o2 in built:
                if not isinstance(tx, str) and tx[0] == "Df":
                    for cn, C in corpus:
                        res.ev()
                        res.count("deferred_before_import")
                        if subclasscheck(C, N) is not False:
                            res.violation("deferred-before-import", ["Df", cn], spec,
                                          observed=True, acceptable=False)
        mod = importlib.import_module(spec["dmod"])
        dclasses = [(f"{spec['dmod']}.{n}", getattr(mod, n)) for n in ("Thing", "Sub", "Other", "Root") if hasattr(mod, n)]
        if hasattr(mod, "Root"):
            lazy_mod = spec["dmod"] + ".extra"
        # a subclass of a class of that module that is defined *elsewhere*: the documented test only looks at classes of
        # the module itself, whatever was asked (and resolved) before - it comes last, after the module's own classes
        dclasses.append(("Outside(Thing)", type("OutsideThing", (mod.Thing,), {"__module__": "vfcase_elsewhere"})))

    def per_type(classes):
        for tx, A, N, o, o2 in built:
            if T.depth(tx) >= 2:
                res.count("depth2_types")
                res.nontrivial([rel, T.tname(tx)])
            hs = T.heads(tx)
            for h in hs:
                res.count(f"head_{h}")
            # l1 reflexive
            res.ev()
            try:
                r = subclasscheck(N, N)
            except Exception as e:  # noqa: BLE001
                r = ("EXC", type(e).__name__)
            if r is not True:
                res.violation("reflexive", [T.tname(tx) if T.depth(tx) < 2 else sorted(hs)], spec,
                              observed=r, acceptable=True, note=T.tname(tx))
            got_cache = {}
            for cn, C in classes:
                exp = T.cls_sat(tx, env, C)
                # m1
                res.ev()
                res.count("pairs_subclasscheck")
                if "Df" in hs and dclasses:
                    res.count("deferred_after_import")
                try:
                    got = subclasscheck(C, N)
                except Exception as e:  # noqa: BLE001
                    got = ("EXC", type(e).__name__, str(e)[:60])
                got_cache[cn] = got
                if got is not exp and got != exp:
                    res.violation("meaning-vs-subclasscheck", [sorted(hs), exp], spec,
                                  observed={"type": T.tname(tx), "class": cn, "subclasscheck": got},
                                  acceptable=exp)
                # m2 through a real dispatch
                if C is type(None):
                    inst = None
                else:
                    inst = C()
                res.ev()
                res.count("pairs_dispatch")
                if ("CC" in hs or "Hook" in T.tname(tx)) and (len(got_cache) % 3 == 0):
                    # history: the *first* lookup of this class is interrupted once by a failing user hook / predicate
                    # (a transient fault); the retry must then see the documented meaning, not a left-over
                    env.predlog.fault_at, env.predlog.fault_count = 1, 0
                    first = outcome(lambda: o(inst), vf)
                    env.predlog.fault_at = None
                    if first[0] == "exc" and first[1] == "HookFault":
                        res.count("dispatch_retried_after_transient_hook_fault")
                out = outcome(lambda: o(inst), vf)
                ran_T = out[0] == "ran" and out[1] == (1,)
                ran_any = out[0] == "ran" and out[1] == (0,)
                if not (ran_T or ran_any) or ran_T != exp:
                    res.violation("meaning-vs-dispatch", [sorted(hs), exp, out[0]], spec,
                                  observed={"type": T.tname(tx), "class": cn, "outcome": list(map(str, out))[:3]},
                                  acceptable="T-method runs" if exp else "catch-all runs")
                # m3: first of two parameters, no catch-all: the method runs exactly when the class satisfies the type
                res.count("pairs_dispatch_two_parameters")
                out2 = outcome(lambda: o2(inst, 1), vf)
                ran2 = out2[0] == "ran" and out2[1] == (2,)
                if (ran2 if not exp else not ran2) or (not exp and out2[0] not in ("none", "bind")):
                    res.violation("meaning-vs-dispatch-two-parameters", [sorted(hs), exp, out2[0]], spec,
                                  observed={"type": T.tname(tx), "class": cn, "outcome": list(map(str, out2))[:3]},
                                  acceptable="the method runs" if exp else "no applicable method")
            # l2 transitivity (closed meanings only)
            if _closed(tx):
                # (a deferred type only admits classes of its own module - by its documented meaning it is not closed
                # under subclasses defined elsewhere)
                allc = [(n_, c_) for n_, c_ in classes if not ("Df" in hs and getattr(c_, "__module__", "") == "vfcase_elsewhere")]
                for an, a in allc:
                    for bn, b in allc:
                        if a is not b and issubclass(a, b) and got_cache[bn] is True:
                            res.ev()
                            res.count("law_transitive")
                            if got_cache[an] is not True:
                                res.violation("transitive", [sorted(hs)], spec,
                                              observed={"a": an, "b": bn, "T": T.tname(tx), "sc(a,T)": got_cache[an]},
                                              acceptable=True)

    per_type(corpus + dclasses)
    if lazy_mod:
        # a class of a submodule that nothing had imported while the pairs above were decided (the package's own
        # __init__ does not import it): now it is imported, and its class must satisfy the type that names it
        Lazy = importlib.import_module(lazy_mod).Lazy
        dclasses.append((lazy_mod + '.Lazy', Lazy))
        res.count('deferred_submodule_imported_late')
        per_type([dclasses[-1]])

    # the class `type` is a class like any other: a method declared on it applies to v exactly when type(v) - for a
    # class object, its metaclass - is a subclass of `type`; abstract classes, protocols and classes with a user
    # metaclass are class objects too
    ot = Ovld()
    mt, f1 = make_method({"mid": 1, "pos": [{"n": "x"}]}, env, vf, ["return 1"], tag="c13", ann_override={"x": type})
    ma, f2 = make_method({"mid": 0, "pos": [{"n": "x", "t": "object"}]}, env, vf, ["return 0"], tag="c13")
    ot.register(mt)
    ot.register(ma, priority=-1)
    files += [f1, f2]
    for cn, C in corpus + [(n, env.cls(n)) for n in ("HasFly", "Shape", "Hook")]:
        for v, exp in ((C, True), (None if C is type(None) else C(), False)) if C not in (env.cls("HasFly"), env.cls("Shape")) \
                else ((C, True),):
            res.ev()
            res.count("class_objects_against_the_class_type")
            out = outcome(lambda: ot(v), vf)
            if out[0] != "ran" or out[1] != ((1,) if exp else (0,)):
                res.violation("meaning-vs-dispatch", [["type"], exp, out[0]], spec,
                              observed={"type": "type", "value": ("class " if exp else "instance of ") + cn,
                                        "outcome": list(map(str, out))[:3]},
                              acceptable="T-method runs" if exp else "catch-all runs")

    # l3 issubclass on plain classes
    plain = corpus + [(n, env.cls(n)) for n in ("HasFly", "Shape", "Hook")] + dclasses
    for an, a in plain:
        for bn, b in plain:
            res.ev()
            res.count("law_issubclass")
            got = subclasscheck(a, b)
            if got is not issubclass(a, b):
                res.violation("issubclass", [an in env.BUILTINS, bn in env.BUILTINS], spec,
                              observed={"a": an, "b": bn, "subclasscheck": got}, acceptable=issubclass(a, b))

    # late ABC registration: the subtype test and a *freshly built* dispatch follow issubclass as it is now
    Shape = env.cls("Shape")
    for cn, C in [(n, c) for n, c in corpus if n in [x["name"] for x in spec["hier"]] and not issubclass(c, Shape)][:2]:
        before = subclasscheck(C, Shape)
        Shape.register(C)
        res.ev()
        res.count("late_registration_checked")
        got = subclasscheck(C, Shape)
        o = Ovld()
        mt, f1 = make_method({"mid": 1, "pos": [{"n": "x", "t": "Shape"}]}, env, vf, ["return 1"], tag="c13")
        ma, f2 = make_method({"mid": 0, "pos": [{"n": "x", "t": "object"}]}, env, vf, ["return 0"], tag="c13")
        o.register(mt)
        o.register(ma, priority=-1)
        files += [f1, f2]
        out = outcome(lambda: o(C()), vf)
        if got is not True or out[:2] != ("ran", (1,)):
            res.violation("late-abc-registration", [before, got, out[0]], spec,
                          observed={"class": cn, "subclasscheck_before": before, "subclasscheck_after": got,
                                    "fresh_dispatch": [str(x) for x in out[:2]]},
                          acceptable="subclasscheck True and the method on the ABC runs")
    # l4 covariance
    import collections.abc as cabc
    for shape, an, bn in spec["generics"]:
        a, b = env.cls(an), env.cls(bn)
        pairs = {
            "list": (list[a], list[b]), "dict": (dict[str, a], dict[str, b]),
            "seq": (list[a], cabc.Sequence[b]), "type": (type[a], type[b]),
            "typelist": (type[list[a]], type[list[b]]), "nest": (list[list[a]], list[list[b]]),
        }[shape]
        for p, t in (pairs, pairs[::-1]):
            res.ev()
            res.count("law_covariance")
            exp = T._subtype(p, t) if shape not in ("type", "typelist") else T._subtype(p.__args__[0], t.__args__[0])
            got = subclasscheck(p, t)
            if got is not exp:
                res.violation("covariance", [shape], spec, observed={"p": str(p), "t": str(t), "got": got},
                              acceptable=exp)
        # parametrised vs bare origin; same origin with a different number of arguments is not argument-wise comparable
        for p, t, exp in ((list[a], list, True), (list, list[a], False), (tuple[a, b], tuple[a], False),
                          (tuple[a], tuple[a, b], False), (type[tuple[a, b]], type[tuple[a]], False)):
            res.ev()
            res.count("law_covariance")
            got = subclasscheck(p, t)
            if got is not exp:
                res.violation("covariance-origin", [exp], spec, observed={"p": str(p), "t": str(t), "got": got},
                              acceptable=exp)
    forget(files)
