import sys, threading, time
from ovld import Ovld
sys.setswitchinterval(1e-6)
def build():
    o = Ovld()
    @o.register
    def f(x: int): return "int"
    @o.register
    def f(x: str): return "str"
    @o.register
    def f(x: object): return "obj"
    @o.register
    def f(x: float): return "float"
    @o.register
    def f(x: list): return "list"
    return o.dispatch
outcomes={}
N=3000
t0=time.time()
for it in range(N):
    d = build()
    res = {}
    bar = threading.Barrier(4)
    def worker(tid, arg):
        bar.wait()
        try: res[tid] = d(arg)
        except BaseException as e: res[tid] = f"EXC {type(e).__name__}: {str(e)[:40]}"
    ts = [threading.Thread(target=worker, args=(i, a)) for i, a in enumerate([1, "s", 2.5, []])]
    for t in ts: t.start()
    for t in ts: t.join()
    key = tuple(res[i] for i in range(4))
    outcomes[key] = outcomes.get(key,0)+1
print(time.time()-t0)
for k,v in sorted(outcomes.items(), key=lambda kv:-kv[1]): print(v,k)
