"""Derivation graphs of overloaded functions (copy / variant / mixins / add_mixins): an interpreter
that performs JSON-described operations on real Ovld objects and, in lock-step, on a reference
model.  Shared by C08 (recurse re-entry) and C16 (composition / locking / linkback).

Operations (node ids are creation indices):
    ["new"]                                   Ovld()
    ["mixnew", [p...], linkback]              Ovld(mixins=[p...], linkback=linkback)
    ["copy", p, [extra...], linkback]         p.copy(mixins=[extra...], linkback=linkback)
    ["variant", p, mspec, linkback]           p.variant(fn, linkback=linkback)
    ["addmixin", n, q]                        n.add_mixins(q)
    ["register", n, mspec]                    n.register(fn, priority=mspec.prio)
    ["unregister", n, mid]
    ["use", n]                                first use of n (a probe call)

mspec: {"mid", "t": class name, "kind": leaf|nextleaf|walk_list|acc_list|both_list|map_list|deep_list|nest_list|walk_tuple|wrap|self_list, "prio"}

Model of one node: ordered parents, linkback flag, own = stack of mids per signature
(signature = (type name, priority)); the effective table overlays the parents' tables in mixin
order and the node's own last (property C16, first sentence); re-registering an identical
signature pushes (the older one resurfaces after unregister).
"""
from . import boot  # noqa: F401
from . import tx as T
from .methods import load_source, forget
from .observe import outcome

from ovld import Ovld

LEAF_TYPES = ["int", "str", "float", "bytes", "bool", "object"]
VALUES = {"int": 1, "str": "s", "float": 2.5, "bytes": b"b", "bool": True, "list": [], "tuple": (), "dict": {},
          "object": None}


class Node:
    def __init__(self, nid, ov, parents, lb):
        self.id = nid
        self.ov = ov
        self.parents = list(parents)   # Node objects, mixin order
        self.lb = lb
        self.own = {}                  # (tname, prio) -> [mid, ...] stack
        self.own_order = []            # signatures in first-registration order
        self.used = False

    # ---- model -----------------------------------------------------------------------------
    def levels(self):
        """{(tname, prio): {tiebreak level: (mid, node id)}}: the definitions of a signature are keyed by their
        tiebreak level (0 = latest of a node, -1 the one before ...); parents are overlaid in mixin order, own last,
        *level by level* - an own definition replaces the inherited one of the same level, deeper inherited levels
        stay reachable (through call_next, or when the upper ones are unregistered)"""
        tab = {}
        for p in self.parents:
            for sig, lv in p.levels().items():
                tab.setdefault(sig, {}).update(lv)
        for sig in self.own_order:
            st = self.own.get(sig)
            if st:
                tab.setdefault(sig, {}).update({-(len(st) - 1 - i): (m, self.id) for i, m in enumerate(st)})
        return tab

    def table(self):
        """effective table: {(tname, prio): [stack of (mid, node), oldest first]}"""
        return {sig: [lv[k] for k in sorted(lv)] for sig, lv in self.levels().items()}

    def ancestors(self):
        out = []
        for p in self.parents:
            out.append(p)
            out += p.ancestors()
        return out


class _AlwaysEq:
    """equal to anything it is compared with (except None, so that results can be compared): always-equal test
    doubles, expression builders whose == returns a truthy node"""
    def __eq__(self, other):
        return other is not None

    def __ne__(self, other):
        return other is None

    __hash__ = object.__hash__

    def __repr__(self):
        return "<always-equal>"


ALWAYS_EQ = _AlwaysEq()


class Graph:
    def __init__(self, env, vf, tag="g"):
        self.env = env
        self.vf = vf
        self.tag = tag
        self.nodes = []
        self.fns = {}      # mid -> function
        self.mspecs = {}   # mid -> mspec
        self.files = []
        # two shared globals dicts, like two modules of a user: the methods written for even-numbered functions live in
        # one, those for odd-numbered ones in the other (an inherited method then comes from another module than the
        # heir's own methods)
        self.ns = {"__vf": vf, "__ALWAYS_EQ": ALWAYS_EQ}
        self.ns_odd = {"__vf": vf, "__ALWAYS_EQ": ALWAYS_EQ}
        self.log = []
        # on-demand registrations: performed on the real function during the real call (log of ok / refused), then
        # replayed at the same point of the reference interpretation
        self._cur = None
        self._od_real, self._od_model = set(), set()
        self._od_log, self._od_replay = [], []
        vf.ondemand = self._ondemand_real
        self.ondemand_applied = 0
        self.ondemand_failed = 0
        self.ondemand_retried = 0

    def _ondemand_real(self, mid):
        if mid in self._od_real or self._cur is None:
            return
        self._od_real.add(mid)
        n, ms = self._cur, self.mspecs[mid]["extra"]
        if ms.get("bad"):
            # a registration that cannot be built: the caller catches the error and takes the method out again - the
            # set of methods is what it was, and the call goes on.  Two kinds (parameters that clash with everybody
            # else's: fails before anything is rebuilt; call_next not called right away: fails while the methods are
            # being rewritten one by one), on the function being called or on a parent it links back to.
            if ms["mid"] % 2:
                src = "def f(acc, x=None):\n    return 'bad'\n"
                ann = "acc"
            else:
                src = "def f(x, acc=None):\n    nxt = call_next\n    return nxt(x)\n"
                ann = "x"
            ns, file = load_source(src, self.ns, mid=ms["mid"], tag=self.tag, shared=True)
            self.files.append(file)
            bad = ns["f"]
            bad.__annotations__ = {ann: self.env.cls(ms["t"])}
            tgt = n
            if n.lb and n.parents and ms["mid"] % 4 < 2:
                tgt = n.parents[0]
            try:
                tgt.ov.register(bad)
            except Exception as e:  # noqa: BLE001
                if "locked for modifications" in str(e):
                    self._od_log.append("refused")
                    return
                self.ondemand_failed += 1
                if ms["mid"] % 3:
                    # somebody calls the function while it cannot be built: one more failed attempt before the repair
                    try:
                        n.ov(0)
                    except Exception:  # noqa: BLE001
                        self.ondemand_retried += 1
            try:
                tgt.ov.unregister(bad)
            except Exception:  # noqa: BLE001
                pass
            self._od_log.append("failed")
            return
        try:
            fn = self.make(ms, n.id)
            n.ov.register(fn, priority=ms.get("prio", 0))
            self._bind_name(n)
            self._od_log.append("ok")
            self.ondemand_applied += 1
        except Exception as e:  # noqa: BLE001
            if "locked for modifications" not in str(e):
                raise
            self._od_log.append("refused")

    # ---- method synthesis ----------------------------------------------------------------------
    def make(self, ms, owner_id):
        mid, kind = ms["mid"], ms["kind"]
        if kind == "leaf":
            body = f"return ('leaf', {mid}, x, acc)"
        elif kind == "nextleaf":     # delegates to the next method of the function it was reached through
            body = f"return ('nx', {mid}, x, call_next(x))"
        elif kind == "nest_list":   # a rewritten call nested in a later argument of another one
            body = (f"return ['N{mid}'] + ([recurse(x[0], recurse(x[1], 0))] if len(x) >= 2 "
                    f"else [recurse(e) for e in x])")
        elif kind == "walk_list":
            body = f"return ['L{mid}'] + [recurse(e) for e in x]"
        elif kind == "deep_list":   # the only use of recurse sits two or more scopes below the method body
            if mid % 2:
                body = (f"def inner(ys):\n        return list(recurse(y) for y in ys)\n"
                        f"    return ['D{mid}'] + inner(x)")
            else:
                body = f"return ['D{mid}'] + (lambda ys: (lambda: [recurse(y) for y in ys])())(x)"
        elif kind == "ondemand":
            # registers one more method on the function being called, the first time it runs, and walks on: the
            # elements after that point must be resolved in the enlarged function, as by a plain call of it
            body = f"__vf.ondemand({mid})\n    return ['O{mid}'] + [recurse(e) for e in x]"
        elif kind == "walk_tuple":
            body = f"return ('T{mid}',) + tuple(recurse(e) for e in x)"
        elif kind == "wrap":
            body = f"return {{'W{mid}': recurse(x['v'])}}"
        elif kind == "acc_list":   # a second argument whose == answers "equal" to whatever it is compared with
            if mid % 2:             # in place (rewritten into a lookup) ...
                body = f"return ['Q{mid}'] + [recurse(e, __ALWAYS_EQ) for e in x]"
            else:                   # ... or through the function object itself
                body = f"return ['Q{mid}'] + list(map(recurse, x, [__ALWAYS_EQ] * len(x)))"
        elif kind == "map_list":   # recurse used as a first-class value, not called in place
            body = f"return ['M{mid}'] + list(map(recurse, x))"
        elif kind == "self_list":
            body = f"return ['S{mid}'] + [F{owner_id}(e) for e in x]"
        elif kind == "both_list":   # the function's own name *and* recurse in one body, the own name first
            body = f"return ['B{mid}'] + [F{owner_id}(e) for e in x[:1]] + [recurse(e) for e in x[1:]]"
        else:
            raise ValueError(kind)
        # every method of every node is written `def f(x)`, the way a user's overloads and variants share one name
        src = f"def f(x, acc=None):\n    __vf.enter({mid}, locals())\n    {body}\n"
        ns, file = load_source(src, self.ns_odd if owner_id % 2 else self.ns, mid=mid, tag=self.tag, shared=True)
        self.files.append(file)
        fn = ns["f"]
        fn.__annotations__ = {"x": self._cls(ms["t"])}
        self.fns[mid] = fn
        self.mspecs[mid] = dict(ms, owner=owner_id)
        return fn

    def _bind_name(self, n):
        d = getattr(n.ov, "dispatch", None)
        if d is not None:
            self.ns[f"F{n.id}"] = d
            self.ns_odd[f"F{n.id}"] = d

    # ---- operations ------------------------------------------------------------------------------
    def apply(self, op):
        """Perform op on the real objects; returns 'ok' | 'refused' and updates the model only when the
        real operation succeeded."""
        k = op[0]
        N = self.nodes
        try:
            if k == "new":
                N.append(Node(len(N), Ovld(), [], False))
            elif k == "mixnew":
                ps = [N[i] for i in op[1]]
                N.append(Node(len(N), Ovld(mixins=[p.ov for p in ps], linkback=op[2]), ps, op[2]))
            elif k == "copy":
                p, ex = N[op[1]], [N[i] for i in op[2]]
                N.append(Node(len(N), p.ov.copy(mixins=[q.ov for q in ex], linkback=op[3]), [p] + ex, op[3]))
            elif k == "variant":
                p, ms = N[op[1]], op[2]
                nid = len(N)
                fn = self.make(ms, nid)
                ov = p.ov.variant(fn, priority=ms.get("prio", 0), linkback=op[3])
                n = Node(nid, ov, [p], op[3])
                self._push(n, ms)
                N.append(n)
                self._bind_name(n)
            elif k == "addmixin":
                n, q = N[op[1]], N[op[2]]
                n.ov.add_mixins(q.ov)
                n.parents.append(q)
            elif k == "register":
                n, ms = N[op[1]], op[2]
                fn = self.make(ms, n.id)
                n.ov.register(fn, priority=ms.get("prio", 0))
                self._push(n, ms)
                self._bind_name(n)
            elif k == "unregister":
                n, mid = N[op[1]], op[2]
                n.ov.unregister(self.fns[mid])
                for sig, st in n.own.items():
                    if mid in st:
                        st.remove(mid)
            elif k == "use":
                N[op[1]].used = True
            else:
                raise ValueError(op)
        except Exception as e:  # noqa: BLE001
            if "locked for modifications" in str(e):
                return "refused"
            raise
        return "ok"

    def _push(self, n, ms):
        sig = (ms["t"], ms.get("prio", 0))
        if sig not in n.own:
            n.own_order.append(sig)
        n.own.setdefault(sig, []).append(ms["mid"])

    # ---- reference resolution on one node ------------------------------------------------------------
    def _cls(self, tn):
        """class by name; "type[int]" is the annotation type[int] (classes passed as arguments)"""
        return type[self.env.cls(tn[5:-1])] if tn.startswith("type[") else self.env.cls(tn)

    def resolve(self, n, v):
        """winner mid for value v on node n's effective table, or None (no method).
        Types are builtins in single-inheritance chains, so the most specific applicable class
        is unique; priority first."""
        tab = n.table()
        app = []
        for (tn, prio), st in tab.items():
            if tn.startswith("type["):
                # type[X] applies to the classes under X and is narrower than any plain class a class object is an
                # instance of (object)
                c = self.env.cls(tn[5:-1])
                if isinstance(v, type) and issubclass(v, c):
                    app.append((prio, 100 + len(v.__mro__) - v.__mro__.index(c), st[-1][0]))
                continue
            c = self.env.cls(tn)
            if isinstance(v, c):
                app.append((prio, len(type(v).__mro__) - type(v).__mro__.index(c), st[-1][0]))
        if not app:
            return None
        app.sort(reverse=True)
        return app[0][2]

    def chain(self, n, v):
        """method ids applicable to v on node n in delegation order: by priority, then specificity, and within one
        signature the definitions of the node that holds it, latest first"""
        tab = n.table()
        app = []
        for (tn, prio), st in tab.items():
            if tn.startswith("type["):
                c = self.env.cls(tn[5:-1])
                if isinstance(v, type) and issubclass(v, c):
                    app.append((prio, 100 + len(v.__mro__) - v.__mro__.index(c), st))
                continue
            c = self.env.cls(tn)
            if isinstance(v, c):
                app.append((prio, len(type(v).__mro__) - type(v).__mro__.index(c), st))
        app.sort(key=lambda a: (a[0], a[1]), reverse=True)
        return [m for _, _, st in app for m, _node in reversed(st)]

    def ev(self, n, v, acc=None):
        """reference interpreter: result tree of calling node n on v (second, optional argument acc)."""
        mid = self.resolve(n, v)
        if mid is None:
            raise LookupError
        return self.ev_mid(n, mid, v, acc)

    def ev_mid(self, n, mid, v, acc=None):
        ms = self.mspecs[mid]
        kind = ms["kind"]
        if kind == "nextleaf":
            ch = self.chain(n, v)
            i = ch.index(mid)
            if i + 1 >= len(ch):
                raise LookupError       # call_next with nothing left: the whole call fails with "no method"
            return ("nx", mid, v, self.ev_mid(n, ch[i + 1], v, None))
        if kind == "leaf":
            return ("leaf", mid, v, acc)
        if kind == "nest_list":
            if len(v) >= 2:
                inner = self.ev(n, v[1], 0)
                return [f"N{mid}", self.ev(n, v[0], inner)]
            return [f"N{mid}"] + [self.ev(n, e) for e in v]
        if kind == "walk_list":
            return [f"L{mid}"] + [self.ev(n, e) for e in v]
        if kind == "ondemand":
            if mid not in self._od_model:
                self._od_model.add(mid)
                if self._od_replay and self._od_replay.pop(0) == "ok":
                    self._push(self._cur, ms["extra"])
            return [f"O{mid}"] + [self.ev(n, e) for e in v]
        if kind == "map_list":
            return [f"M{mid}"] + [self.ev(n, e) for e in v]
        if kind == "acc_list":
            return [f"Q{mid}"] + [self.ev(n, e, ALWAYS_EQ) for e in v]
        if kind == "deep_list":
            return [f"D{mid}"] + [self.ev(n, e) for e in v]
        if kind == "walk_tuple":
            return (f"T{mid}",) + tuple(self.ev(n, e) for e in v)
        if kind == "wrap":
            return {f"W{mid}": self.ev(n, v["v"])}
        if kind == "self_list":
            # ordinary Python scoping: the name is bound to the function the method was written for
            owner = self.nodes[ms["owner"]]
            return [f"S{mid}"] + [self.ev(owner, e) for e in v]
        if kind == "both_list":
            owner = self.nodes[ms["owner"]]
            return [f"B{mid}"] + [self.ev(owner, e) for e in v[:1]] + [self.ev(n, e) for e in v[1:]]
        raise ValueError(kind)

    def call(self, n, v):
        """(got, expected) as comparable tuples.  The real call runs first: registrations that method bodies make
        on demand are logged and replayed at the same point of the reference interpretation."""
        self._cur = n
        self._od_log = []
        out = outcome(lambda: n.ov(v), self.vf)
        self._od_replay = list(self._od_log)
        try:
            exp = ("ok", self.ev(n, v))
        except LookupError:
            exp = ("none",)
        except (KeyError, TypeError):
            exp = ("bodyerr",)
        self._cur = None
        if out[0] == "ran":
            got = ("ok", out[2])
        elif out[0] in ("none", "bind"):
            got = ("none",)
        elif out[0] == "exc" and out[1] in ("KeyError", "TypeError") and exp == ("bodyerr",):
            got = ("bodyerr",)
        else:
            got = tuple(str(x) for x in out[:3])
        n.used = True
        return got, exp

    def cleanup(self):
        forget(self.files)
