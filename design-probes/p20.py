from ovld import Ovld, recurse, call_next
def outcome(fn):
    try: return fn()
    except TypeError as e: return "ERR:" + ("amb" if "Ambiguous" in str(e) else "none" if "No method" in str(e) else str(e)[:60])
    except Exception as e: return "EXC:" + type(e).__name__ + ":" + str(e)[:60]
# C05: tiebreak residue after unregister
def a1(x: int): return "a1"
def a2(x: int): return "a2"
def b(x: int, y: int = 0): return "b"
o = Ovld(); o.register(a1); o.register(a2); o.register(b)
print("hist:", outcome(lambda: o(1)))
o.unregister(a2)
print("hist after unregister a2:", outcome(lambda: o(1)))
f = Ovld(); f.register(a1); f.register(b)
print("fresh {a1,b}:", outcome(lambda: f(1)))
# re-register same function twice
o2 = Ovld(); o2.register(a1); o2.register(a1); print("a1 twice:", outcome(lambda: o2(1)), len(o2._defns))
o2.unregister(a1); print("after unregister:", outcome(lambda: o2(1)), len(o2._defns))

# C08: self-name inside variant
F = Ovld()
@F.register
def F(xs: list): return [F(x) for x in xs]
@F.register
def F(x: int): return ("F", x)
G = F.__ovld__.copy() if hasattr(F, "__ovld__") else F.copy()
@G.register
def G_(x: int): return ("G", x)
print("F:", outcome(lambda: F([1])), "G:", outcome(lambda: G([1])))
