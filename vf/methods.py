"""Method *source* synthesis and in-memory loading.

Generated methods are real ``def`` statements compiled under a virtual file name that is
registered in ``linecache`` - which is all ``inspect.getsource`` (and therefore ovld's own AST
rewriter) needs.  No file is written.
"""
import itertools
import linecache

from . import boot  # noqa: F401
import ovld

_file_counter = itertools.count()

# virtual file name -> (case tag, method id): used by the order pin and by monitors to map a
# handler / code object back to the harness method id.
FILE_MID = {}


MISSING_ANN = object()   # ann_override value meaning "leave the parameter unannotated"


class Default:
    """Unique default object of one parameter of one method (C03 identity checks)."""

    __slots__ = ("mid", "name")

    def __init__(self, mid, name):
        self.mid = mid
        self.name = name

    def __repr__(self):
        return f"<default m{self.mid}.{self.name}>"


class UserExc(KeyError):
    """raised by generated method bodies.  A KeyError on purpose: the library looks things up in dictionaries all the
    time, and an exception that escapes a user's method must never be taken for one of its own misses"""

    def __init__(self, mid):
        super().__init__(mid)
        self.mid = mid


def load_source(src, globs, mid=None, tag="x", shared=False):
    """exec ``src`` under a fresh virtual file name; returns the namespace.
    shared=True executes in ``globs`` itself (all methods of a case share one globals dict, the
    way methods of a user's module do)."""
    fname = f"<vf:{tag}:{next(_file_counter)}>"
    linecache.cache[fname] = (len(src), None, src.splitlines(True), fname)
    FILE_MID[fname] = mid
    ns = globs if shared else dict(globs)
    ns.setdefault("__name__", "vfcase")
    ns.setdefault("call_next", ovld.call_next)
    ns.setdefault("recurse", ovld.recurse)
    exec(compile(src, fname, "exec"), ns)
    return ns, fname


def forget(fnames):
    for f in fnames:
        linecache.cache.pop(f, None)
        FILE_MID.pop(f, None)


def param_list(spec):
    """Parameter list text + defaults dict for a method spec.

    spec: {"mid", "self": bool, "pos": [{"n","opt","po"}], "kw": [{"n","req"}]}"""
    mid = spec["mid"]
    parts = []
    defaults = {}
    if spec.get("self"):
        parts.append("self")
    pos = spec.get("pos", [])
    n_po = sum(1 for p in pos if p.get("po"))
    for i, p in enumerate(pos):
        if p.get("opt"):
            dn = f"__D{mid}_{p['n']}"
            defaults[dn] = Default(mid, p["n"])
            parts.append(f"{p['n']}={dn}")
        else:
            parts.append(p["n"])
        if n_po and i == n_po - 1:
            parts.append("/")
    kws = spec.get("kw", [])
    if kws:
        parts.append("*")
        for k in kws:
            if k.get("req"):
                parts.append(k["n"])
            else:
                dn = f"__D{mid}_{k['n']}"
                defaults[dn] = Default(mid, k["n"])
                parts.append(f"{k['n']}={dn}")
    return ", ".join(parts), defaults


def make_method(spec, env, vf, body_lines, tag="x", extra_globals=None, ann_override=None,
                spelling="typing", name=None, shared_ns=None):
    """Build the function object for one method spec.

    body_lines: list of source lines executed after ``__vf.enter``.
    Returns (function, virtual file name)."""
    from . import tx as _tx

    mid = spec["mid"]
    params, defaults = param_list(spec)
    # all methods of a program share one function name, as overloads written by a user do (`def f(...)` repeated)
    fname = name or "f"
    src = f"def {fname}({params}):\n    __vf.enter({mid}, locals())\n"
    src += "".join(f"    {line}\n" for line in body_lines)
    if shared_ns is not None:
        globs = shared_ns
        globs.update({"__vf": vf, "UserExc": UserExc, **defaults})
    else:
        globs = {"__vf": vf, "UserExc": UserExc, **defaults}
    if extra_globals:
        globs.update(extra_globals)
    ns, file = load_source(src, globs, mid=mid, tag=tag, shared=shared_ns is not None)
    fn = ns[fname]
    anns = {}
    for p in spec.get("pos", []):
        if p.get("t") is not None:
            anns[p["n"]] = _tx.ann(p["t"], env, spelling)
    for k in spec.get("kw", []):
        if k.get("t") is not None:
            anns[k["n"]] = _tx.ann(k["t"], env, spelling)
    if ann_override:
        for k, v in ann_override.items():
            if v is MISSING_ANN:
                anns.pop(k, None)
            else:
                anns[k] = v
    if spec.get("ret"):
        anns["return"] = _tx.ann(spec["ret"], env, spelling)      # a return annotation takes no part in dispatch
    fn.__annotations__ = anns
    fn.__vf_defaults__ = {d.name: d for d in defaults.values()}
    return fn, file


def mid_of_code(code):
    return FILE_MID.get(getattr(code, "co_filename", None))


def mid_of_handler(h):
    return mid_of_code(getattr(h, "__code__", None))
