from typing import Literal
from ovld import Ovld
def t(label, build, probes):
    o = build()
    out=[]
    for p in probes:
        try: out.append((p, o(p)))
        except TypeError as e: out.append((p, "ERR:"+str(e).split(" in ")[0]))
    print(label, out)

def b1():
    o = Ovld()
    for i in range(4):
        o.register(eval(f"lambda x: {i}", {}), ) if False else None
    return o
# multi-valued literal on table path
def b_multi(n):
    def build():
        o = Ovld()
        def mk(i):
            def f(x: Literal[i]): return f"L{i}"
            return f
        for i in range(n): o.register(mk(i))
        def g(x: Literal[100, 101]): return "L100|101"
        o.register(g)
        def h(x: object): return "obj"
        o.register(h)
        return o
    return build
for n in (1,2,3,4,6):
    t(f"n={n}", b_multi(n), [0, 100, 101, 7, True, 1.0, "a"])

# mixed-type literal
def b_mixed():
    o = Ovld()
    def g(x: Literal[0, "a"]): return "0|a"
    o.register(g)
    def h(x: object): return "obj"
    o.register(h)
    return o
t("mixed", b_mixed, [0, "a", "b", 1])
def b_mixed2():
    o = Ovld()
    def g(x: Literal["a", 0]): return "a|0"
    o.register(g)
    def h(x: object): return "obj"
    o.register(h)
    return o
t("mixed2", b_mixed2, [0, "a", "b", 1])
# overlapping literals
def b_overlap(n):
    def build():
        o = Ovld()
        def mk(i):
            def f(x: Literal[i, i+1]): return f"L{i},{i+1}"
            return f
        for i in range(n): o.register(mk(i))
        return o
    return build
for n in (2,3,5):
    t(f"overlap n={n}", b_overlap(n), [0,1,2,3,4,5,6])
