from ovld import ovld

@ovld
def convert(x: int, *, type: str = "dec"):
    return f"int as {type}"
@ovld
def convert(x: str, *, type: str = "raw"):
    return f"str as {type}"

out = []
for a, kw in ((1, {}), (1, {"type": "hex"}), ("s", {"type": "utf8"})):
    try:
        out.append(convert(a, **kw))
    except Exception as e:
        out.append(f"{e.__class__.__name__}: {e}"[:70])
print(out)
print("PASS" if out == ["int as dec", "int as hex", "str as utf8"] else "FAIL")
