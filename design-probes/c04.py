import sys, random, collections, itertools
from typing import Literal
from h import *
import pin
from ovld import Dependent
class MyInt(int): pass
def run(seed):
    rng = random.Random(seed)
    classes = gen_hierarchy(rng, rng.randint(2, 5)); pool = classes + [object, int, MyInt]
    npos = rng.choice([1, 1, 2]); params = [f"a{i}" for i in range(npos)]
    specs = []
    for i in range(rng.randint(2, 7)):
        anns = {}
        for p in params:
            r = rng.random()
            if r < 0.15: anns[p] = Literal[rng.choice([0, 1, 2])]
            elif r < 0.25: anns[p] = Dependent[int, rng.choice([lambda x: x > 0, lambda x: x % 2 == 0])]
            else: anns[p] = rng.choice(pool)
        kind = rng.choice(["leaf", "next", "next", "fnext", "rec"])
        argl = ", ".join(params)
        body = {"leaf": [f"return ({i},)"], "next": [f"return ({i}, call_next({argl}))"],
                "fnext": [f"return ({i}, F.next({argl}))"],
                "rec": [f"return ({i}, recurse({", ".join(["ALT"]*npos)})) if DEPTH.append(0) or len(DEPTH) < 4 else ({i},)"]}[kind]
        specs.append(dict(mid=i, params=params, anns=anns, body=body, prio=rng.choice([0,0,0,1])))
    vals = [c() for c in classes] + [object(), 0, 1, 2, 3, MyInt(1), MyInt(2)]
    def mk():
        o = build(specs)
        return o
    H = mk()
    mism = []
    # inject globals used by bodies
    SHARED = []
    def call(o, args, alt):
        SHARED.clear()
        import h
        for m in o.defns.values():
            m.__globals__["F"] = o.dispatch if hasattr(o, "dispatch") else o
            m.__globals__["ALT"] = alt
            m.__globals__["DEPTH"] = SHARED
        # depth guard: count recursion using LOG length
        def go():
            return o(*args)
        return outcome(go)
    hist = [(tuple(rng.choice(vals) for _ in range(npos)), rng.choice(vals)) for _ in range(rng.randint(5, 25))]
    for args, alt in hist:
        try:
            got = call(H, args, alt)
        except RecursionError: continue
        fresh = call(mk(), args, alt)
        if got[:2] != fresh[:2]: mism.append((args, got[:2], fresh[:2]))
    return specs, mism
stats = collections.Counter(); exs=[]
for seed in range(int(sys.argv[1])):
    try: specs, mism = run(seed)
    except Exception as e:
        stats["harness-exc:"+type(e).__name__+str(e)[:60]] += 1; continue
    stats["progs"] += 1; stats["mism"] += len(mism); stats["mism_progs"] += bool(mism)
    if mism and len(exs) < 5: exs.append((seed, [(s["mid"], {k: str(v) for k, v in s["anns"].items()}, s["prio"], s["body"][0][:40]) for s in specs], mism[:2]))
print(stats)
for e in exs: print(e)
