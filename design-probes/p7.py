from ovld import Ovld, call_next, recurse, ovld
def show(label, fn):
    try: print(label, "->", fn())
    except Exception as e: print(label, "-> EXC", type(e).__name__, str(e).splitlines()[0][:120])

f = Ovld()
@f.register
def f(xs: list): return [recurse(x) for x in xs]
@f.register
def f(x: int): return ("f", x)
g = f.copy()
@g.register
def g_(x: int): return ("g", x)
h = g.copy()
@h.register
def h_(x: str): return ("h", x)
g2 = f.copy()
@g2.register
def g2_(x: int): return ("g2", x)
show("h", lambda: h([1, "a", [2]]))
show("g", lambda: g([1, [2]]))
show("g2", lambda: g2([1, [2]]))
show("f", lambda: f([1, [2]]))
show("g again", lambda: g([1, [2]]))
# lock: f should refuse modification now
def ff(x: float): return ("f", x)
show("f.register after child use", lambda: f.register(ff))
show("g.register after grandchild use", lambda: g.register(ff))
# grandparent locked? h used; g locked by h.compile; f locked by g.compile (g compiled when? g was called)
# Now: grandchild used but intermediate never called
a = Ovld()
@a.register
def a_(x: int): return ("a", x)
b = a.copy()
c = b.copy()
@c.register
def c_(x: str): return ("c", x)
show("c(1)", lambda: c(1))
show("a.register after grandchild c used (b never used)", lambda: a.register(ff))
show("c(1.5) after", lambda: c(1.5))
show("a(1.5) after", lambda: a(1.5))
show("b.register", lambda: b.register(ff))
