"""F54 (C12 / C14): typeorder(type[MA], M) for MA's metaclass M was MORE although subclasscheck(type[MA], M) is True
(since F31): k(MA) picked the method on M over the one on type[MA]."""
from ovld import ovld
from ovld.mro import Order, subclasscheck, typeorder


class M(type):
    pass


class MA(metaclass=M):
    pass


@ovld
def k(x: type[MA]):
    return "type[MA]"


@ovld
def k(x: M):
    return "M"


assert subclasscheck(type[MA], M) and not subclasscheck(M, type[MA])
assert typeorder(type[MA], M) is Order.LESS and typeorder(M, type[MA]) is Order.MORE
assert k(MA) == "type[MA]"
print("ok")
