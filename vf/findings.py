"""Known findings: committed list + defect-model classifiers.

known_findings.json is read-only at run time.  An ``open`` finding lets violations pass that its
classifier attributes to it (the classifier must *predict the observed wrong outcome* from a model
of the defect, not merely recognise the input shape); a ``fixed: ...`` entry suppresses nothing.
"""
import json
import os

HERE = os.path.dirname(os.path.dirname(os.path.abspath(__file__)))
PATH = os.path.join(HERE, "known_findings.json")


def load():
    with open(PATH) as f:
        return json.load(f)["findings"]


def open_for(prop):
    return [f for f in load() if prop in f["properties"] and f["status"] == "open"]


def is_open(fid, prop):
    return any(f["id"] == fid for f in open_for(prop))


def witnesses_for(prop):
    for f in load():
        w = (f.get("witnesses") or {}).get(prop)
        if w is None:
            continue
        status = "open" if f["status"] == "open" else "fixed"
        ws = w if isinstance(w, list) and w and isinstance(w[0], dict) and "__multi__" in w[0] else [w]
        for spec in ws:
            yield f["id"], status, spec
