import sys, threading
from ovld import Ovld
import ovld.core as core

f = Ovld()
@f.register
def _(x: int, y: int = 0):
    return ("int", x, y)
@f.register
def _(x: str):
    return ("str", x)

gate_reached = threading.Event()
gate_go = threading.Event()
target_code = core.Ovld._compile.__code__
lines = {}
import inspect
src, start = inspect.getsourcelines(core.Ovld._compile)
for i, l in enumerate(src):
    if "__kwdefaults__ = dispatch.__kwdefaults__" in l:
        stop_line = start + i   # the line right after the code swap

def tracer(frame, event, arg):
    if frame.f_code is target_code:
        def local(frame, event, arg):
            if event == "line" and frame.f_lineno == stop_line and threading.current_thread().name == "A":
                gate_reached.set()
                gate_go.wait(5)
            return local
        return local
    return None

res = {}
def A():
    sys.settrace(tracer)
    try:
        res["A"] = f.dispatch(1)
    except BaseException as e:
        res["A"] = repr(e)
    sys.settrace(None)
def B():
    gate_reached.wait(5)
    try:
        res["B"] = f.dispatch(2)
    except BaseException as e:
        res["B"] = repr(e)
    gate_go.set()
ta = threading.Thread(target=A, name="A"); tb = threading.Thread(target=B, name="B")
ta.start(); tb.start(); ta.join(); tb.join()
print(res)
ok = res == {"A": ("int", 1, 0), "B": ("int", 2, 0)}
print("PASS" if ok else "FAIL")
sys.exit(0 if ok else 1)
