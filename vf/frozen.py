"""Defect model for the F1 family (F1, F14, F16): a *frozen transcription* of the resolution
algorithm as pinned (per-position topological layer index as specificity, `>=` on layer indices,
ranks formed against the head candidate only, value checks evaluated rank by rank), with the
iteration order pinned the way vf.observe.pin() pins it.

It exists only to **predict the wrong answer**: when the reference model (vf/refmodel.py) and the
library disagree, the disagreement is attributed to the F1 family iff the observation equals what
this transcription predicts.  It is never used as an oracle, it is committed, and it does not follow
the library: a change to the library's ranking, grouping, sort key, tiebreak, fall-through or
continuation logic produces observations this transcription does not predict, which are reported as
new violations.

Fragment: annotations that are plain classes, Dependent[class, pred] and same-typed Literal[...];
anything else makes the prediction None ("unmodelled").
"""
from . import tx as T
from .prog import REC_LIMIT
from .refmodel import sig_identical


def _kind(t):
    if isinstance(t, str):
        return "C"
    if t[0] == "D" and isinstance(t[1], str):
        return "D"
    if t[0] == "L" and len({type(v) for v in t[1:]}) == 1 and type(t[1]) in (int, str, bool):
        return "L"
    if t[0] == "W":
        return "W"
    return None


def _bound(t, env):
    if t[0] == "W":
        return tuple
    if t[0] == "D":
        return env.cls(t[1])
    return type(t[1])


def _order(t1, t2, env):
    """typeorder on the fragment: -1 (t1 more specific), 1, 0 (same), None (unrelated)"""
    if T.tname(t1) == T.tname(t2):
        return 0
    k1, k2 = _kind(t1), _kind(t2)
    if k1 == "C" and k2 == "C":
        a, b = env.cls(t1), env.cls(t2)
        if a is b:
            return 0
        if issubclass(a, b):
            return -1
        if issubclass(b, a):
            return 1
        return None
    if k1 != "C" and k2 != "C":
        b1, b2 = _bound(t1, env), _bound(t2, env)
        if b1 is b2:
            if k1 == "L" and k2 == "L" and set(t1[1:]) == set(t2[1:]) and len(t1) == len(t2) and list(t1) == list(t2):
                return 0
            if k1 == "W" and k2 == "W" and len(t1) == len(t2):
                # FuncDependentType.__lt__ as pinned: counts of positions where only the other side is a wildcard
                p1g = sum(a == "*" and b != "*" for a, b in zip(t1[1:], t2[1:]))
                p2g = sum(b == "*" and a != "*" for a, b in zip(t1[1:], t2[1:]))
                if p2g and not p1g:
                    return -1
                if p1g and not p2g:
                    return 1
            return None
        if issubclass(b1, b2):
            return -1
        if issubclass(b2, b1):
            return 1
        return None
    if k1 != "C":
        b, c = _bound(t1, env), env.cls(t2)
        return -1 if (issubclass(c, b) or issubclass(b, c)) else None
    r = _order(t2, t1, env)
    return None if r is None else -r


def _type_applicable(t, cls, env):
    if _kind(t) == "C":
        return issubclass(cls, env.cls(t))
    return issubclass(cls, _bound(t, env))


def _levels(cls, avail, env):
    """{tname: level} for the registered types (tx list, pinned order) applicable to cls."""
    avail = [t for t in avail if _type_applicable(t, cls, env)]
    deps = {i: set() for i in range(len(avail))}
    for i, a in enumerate(avail):
        for j in range(i + 1, len(avail)):
            o = _order(a, avail[j], env)
            if o == -1:
                deps[j].add(i)
            elif o == 1:
                deps[i].add(j)
    batches, done = [], set()
    while len(done) < len(avail):
        ready = [i for i in range(len(avail)) if i not in done and deps[i] <= done]
        if not ready:
            return None
        batches.append(ready)
        done |= set(ready)
    nb = len(batches)
    return {T.tname(avail[i]): nb - 1 - k for k, batch in enumerate(batches) for i in batch}


def _tx_at(m, key):
    if isinstance(key, int):
        if key < len(m["pos"]):
            return m["pos"][key].get("t") or "object"
        return None
    for k in m.get("kw", []):
        if k["n"] == key:
            return k.get("t") or "object"
    return None


def modelled(methods):
    for m in methods:
        for p in m.get("pos", []) + m.get("kw", []):
            if p.get("t") is not None and _kind(p["t"]) is None:
                return False
    return True


CAND_KEY = None   # optional key(mid) reproducing a non-canonical candidate iteration order (C06)


def ranks(methods, call, env, values=None):
    """-> (ranks as lists of mids, set of type-level candidate mids) or None."""
    if not modelled(methods):
        return None
    if values is None:
        values = ([T.value(v, env) for v in call.get("pos", [])],
                  {k: T.value(v, env) for k, v in (call.get("kw") or {}).items()})
    pos_vals, kw_vals = values
    npos, names = len(pos_vals), set(kw_vals)
    keys = list(range(npos)) + list(kw_vals)
    if not keys:
        return None
    tiebreaks = {}
    for i, m in enumerate(methods):
        later = [o for o in methods[i + 1:] if o.get("prio", 0) == m.get("prio", 0) and sig_identical(m, o)]
        tiebreaks[m["mid"]] = -len(later)
    cands, spec = None, {}
    for key in keys:
        v = pos_vals[key] if isinstance(key, int) else kw_vals[key]
        reg, seen = [], set()
        for m in methods:
            t = _tx_at(m, key)
            if t is not None and T.tname(t) not in seen:
                seen.add(T.tname(t))
                reg.append(t)
        lv = _levels(type(v), reg, env)
        if lv is None:
            return None
        here = {}
        for m in methods:
            t = _tx_at(m, key)
            if t is None or T.tname(t) not in lv:
                continue
            req = sum(1 for p in m["pos"] if not p.get("opt"))
            if not (req <= npos <= len(m["pos"])):
                continue
            if {k["n"] for k in m.get("kw", []) if k.get("req")} - names:
                continue
            here[m["mid"]] = lv[T.tname(t)]
        cands = set(here) if cands is None else cands & set(here)
        for c in cands:
            spec.setdefault(c, []).append(here[c])
    by_mid = {m["mid"]: m for m in methods}
    cl = [{"mid": c, "prio": by_mid[c].get("prio", 0), "spec": tuple(spec[c]), "tb": tiebreaks[c]}
          for c in sorted(cands, key=CAND_KEY)]
    cl.sort(key=lambda c: (c["prio"], sum(c["spec"]), c["tb"]), reverse=True)

    def dominates(a, b):
        if a["prio"] > b["prio"]:
            return True
        if a["spec"] != b["spec"]:
            return all(x >= y for x, y in zip(a["spec"], b["spec"]))
        return a["tb"] > b["tb"]

    out, processed = [], set()

    def pull(cs):
        cs = [c for c in cs if c["mid"] not in processed]
        if not cs:
            return
        rv = [cs[0]]
        for c2 in cs[1:]:
            if not dominates(cs[0], c2):
                processed.add(c2["mid"])
                rv.append(c2)
        out.append([c["mid"] for c in rv])
        pull(cs[1:])

    pull(cl)
    return out, set(cands)


def _is_dep(m):
    return any(_kind(p.get("t") or "object") != "C" for p in m.get("pos", []) + m.get("kw", []))


def _check(t, v, env):
    """the value check as pinned: Literal is `value in parameters` (plain ==, also across types)"""
    if t[0] == "L":
        return any(v == x for x in t[1:])
    return T.accepts(t, env, v) is True


def _holds(m, values, env):
    """value checks of m's dependent parameters (static parameters were settled by type)"""
    pos_vals, kw_vals = values
    for p, v in zip(m.get("pos", []), pos_vals):
        t = p.get("t") or "object"
        if _kind(t) != "C" and not _check(t, v, env):
            return False
    for k in m.get("kw", []):
        if k["n"] in kw_vals:
            t = k.get("t") or "object"
            if _kind(t) != "C" and not _check(t, kw_vals[k["n"]], env):
                return False
    return True


class _E(Exception):
    pass


def expected(methods, call, env):
    """Predicted outcome of the public call with prog.body_lines bodies:
    ("ran", tree) | ("none",) | ("amb",) | ("user", mid) | None (unmodelled)."""
    by_mid = {m["mid"]: m for m in methods}
    st = {"nrec": 0}
    altcall = {"pos": call.get("alt", []), "kw": {}}

    def vals(c):
        return ([T.value(v, env) for v in c.get("pos", [])],
                {k: T.value(v, env) for k, v in (c.get("kw") or {}).items()})

    def rk(c, v):
        r = ranks(methods, c, env, v)
        if r is None:
            raise _E("unmodelled")
        return r

    def published_upto(rs):
        """index of the last rank that has entries (the publishing walk stops at the first tied
        static rank, which only gets its error recorded)."""
        for j, grp in enumerate(rs):
            if len(grp) != 1 and not any(_is_dep(by_mid[m]) for m in grp):
                return j
        return len(rs)

    def run_rank(rs, i, c, v):
        if i >= len(rs):
            raise _E("none")
        grp = [by_mid[m] for m in rs[i]]
        if any(_is_dep(m) for m in grp):
            matches = [m for m in grp if _holds(m, v, env)]
            if len(matches) == 1:
                return enter(rs, i, matches[0], c, v)
            if not matches:
                return run_rank(rs, i + 1, c, v)
            raise _E("amb")
        if len(grp) != 1:
            raise _E("amb")
        return enter(rs, i, grp[0], c, v)

    def cont(rs, i, c, v):
        """continuation of a method that sits in rank i (call_next with the argument types of c)"""
        grp = rs[i]
        if len(grp) != 1 and not any(_is_dep(by_mid[m]) for m in grp):
            raise _E("none")          # inside a tied static rank: no entry of its own
        if i + 1 > published_upto(rs):
            raise _E("none")
        if i > published_upto(rs):
            raise _E("none")
        return run_rank(rs, i + 1, c, v)

    def enter(rs, i, m, c, v):
        k = m.get("kind", "leaf")
        if k == "leaf":
            return ("m", m["mid"])
        if k == "raise":
            raise _E(("user", m["mid"]))
        if k == "next":
            return ("n", m["mid"], cont(rs, i, c, v))
        if k == "fnext":
            c2 = {"pos": c.get("pos", []), "kw": {}}
            v2 = (v[0], {})
            return ("n", m["mid"], after(m, c2, v2))
        if k == "rec":
            st["nrec"] += 1
            if st["nrec"] > REC_LIMIT:
                return ("m", m["mid"])
            va = vals(altcall)
            return ("r", m["mid"], run_rank(rk(altcall, va)[0], 0, altcall, va))
        if k in ("nextalt", "fnextalt"):
            st["nrec"] += 1
            if st["nrec"] > REC_LIMIT:
                return ("m", m["mid"])
            return ("n", m["mid"], after(m, altcall, vals(altcall)))
        raise ValueError(k)

    def after(m, c, v):
        rs, cands = rk(c, v)
        if m["mid"] not in cands:
            return run_rank(rs, 0, c, v)      # not a type-level candidate: fresh call
        for j, grp in enumerate(rs):
            if m["mid"] in grp:
                return cont(rs, j, c, v)
        raise _E("none")

    try:
        v0 = vals(call)
        return ("ran", run_rank(rk(call, v0)[0], 0, call, v0))
    except _E as e:
        k = e.args[0]
        if k == "unmodelled":
            return None
        return k if isinstance(k, tuple) else (k,)


def outcome(methods, call, env):
    """winner / error kind only (for leaf-bodied programs): ("win", mid) | ("amb",) | ("none",) | None"""
    leaf = [dict(m, kind="leaf") for m in methods]
    r = expected(leaf, call, env)
    if r is None:
        return None
    if r[0] == "ran":
        return ("win", r[1][1])
    return r
