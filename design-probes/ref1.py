import random, itertools, sys, collections
from ovld import Ovld

def gen_hierarchy(rng, n):
    """random class DAG with MI; returns list of classes (object excluded)"""
    classes = []
    for i in range(n):
        for _ in range(10):
            k = rng.choice([0,1,1,2,2,3]) if classes else 0
            bases = tuple(rng.sample(classes, min(k, len(classes))))
            # drop bases that are ancestors of other bases (avoid MRO errors mostly)
            bases = tuple(b for b in bases if not any(o is not b and issubclass(o, b) for o in bases))
            try:
                c = type(f"K{i}", bases or (object,), {}); classes.append(c); break
            except TypeError: continue
    return classes

def beats(m1, m2, nargs):
    """documented rule on supplied positions"""
    if m1["prio"] != m2["prio"]: return m1["prio"] > m2["prio"]
    t1, t2 = m1["types"][:nargs], m2["types"][:nargs]
    if t1 != t2:
        return all(issubclass(a, b) for a, b in zip(t1, t2))
    # identical on supplied
    if m1["types"] == m2["types"]:      # identical signature: latest wins
        return m1["idx"] > m2["idx"]
    return None  # unspecified

def model(methods, argtypes):
    n = len(argtypes)
    app = [m for m in methods if len(m["types"]) == n and all(issubclass(a, t) for a, t in zip(argtypes, m["types"]))]
    if not app: return {"none"}
    winners = []
    for m in app:
        r = [beats(m, o, n) for o in app if o is not m]
        if any(x is None for x in r): return {"*"}
        if all(r): winners.append(m)
    if len(winners) == 1: return {winners[0]["name"]}
    return {"amb"}

def build(methods):
    o = Ovld()
    for m in methods:
        params = ", ".join(f"a{i}" for i in range(len(m["types"])))
        ns = {}
        exec(f"def {m['name']}({params}): return {m['name']!r}", ns)
        fn = ns[m["name"]]; fn.__annotations__ = {f"a{i}": t for i, t in enumerate(m["types"])}
        o.register(fn, priority=m["prio"])
    return o

def run(seed):
    rng = random.Random(seed)
    classes = gen_hierarchy(rng, rng.randint(2, 6))
    pool = classes + [object]
    npos = rng.choice([1, 1, 2, 2, 3])
    methods = []
    for i in range(rng.randint(1, 6)):
        arity = npos if rng.random() < 0.8 else rng.randint(1, 3)
        methods.append({"name": f"m{i}", "idx": i, "types": tuple(rng.choice(pool) for _ in range(arity)), "prio": rng.choice([0,0,0,0,1,-1])})
    o = build(methods)
    out = []
    for argtypes in itertools.product(pool, repeat=npos):
        args = [t() for t in argtypes]
        try: got = o(*args)
        except TypeError as e: got = "amb" if "Ambiguous" in str(e) else "none" if "No method" in str(e) else "EXC:"+str(e)
        exp = model(methods, argtypes)
        if "*" not in exp and got not in exp:
            out.append((argtypes, got, exp))
    return classes, methods, out

stats = collections.Counter(); ex = {}
for seed in range(int(sys.argv[1])):
    classes, methods, out = run(seed)
    stats["cases"] += 1
    if out:
        stats["cases_with_mismatch"] += 1
        for argtypes, got, exp in out:
            kind = (("got-method" if got.startswith("m") else got), tuple(sorted(("method" if e.startswith("m") else e) for e in exp)))
            stats[kind] += 1
            ex.setdefault(kind, (seed, [ (c.__name__, [b.__name__ for b in c.__bases__]) for c in classes], [(m["name"], [t.__name__ for t in m["types"]], m["prio"]) for m in methods], [t.__name__ for t in argtypes], got, exp))
print(stats)
for k, v in ex.items(): print(k, "\n   ", v)
