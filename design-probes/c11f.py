import sys, random, collections, itertools, typing, linecache
from typing import Literal, Sequence, Mapping, Collection
from h import *
import pin
from ovld import Dependent
from ovld.types import normalize_type
from ovld.dependent import Regexp, StartsWith, EndsWith, HasKey
def atoms(rng):
    return rng.choice([
        Regexp[rng.choice(["^a", "b$", "a.*b", "[0-9]+"])], StartsWith[rng.choice(["a", "ab", ""])], EndsWith[rng.choice(["b", "ab"])],
        HasKey[rng.choice(["k"])], HasKey["k", "j"],
        tuple[int], tuple[int, str], tuple[()], tuple[str], tuple[tuple[int]], tuple[Literal[1]],
        list[int], list[str], Sequence[int], Collection[str], Mapping[str, int], dict[str, int], set[int],
        Literal[1], Literal["ab"], Literal[1, 2],
    ])
VALS = ["a", "ab", "b", "aXb", "123", "", {"k": 1}, {"k": 1, "j": 2}, {"j": 1}, {}, {"a": 1}, {"a": "x"}, {1: 1},
        (), (1,), ("s",), (1, "s"), ((1,),), (1, 2), [1], ["s"], [], [1, "s"], {1, 2}, {"s"}, set(), 1, 2, 3, True, None, 2.5]
def gen(rng):
    r = rng.random()
    if r < 0.6: return atoms(rng)
    a, b = atoms(rng), atoms(rng)
    from ovld.dependent import DependentType
    if r < 0.8: return typing.Union[a, b]
    if isinstance(a, DependentType) and isinstance(b, DependentType): return a & b
    return a
F6=[0]
def run(seed):
    rng = random.Random(seed)
    T = gen(rng)
    ncomp = rng.choice([0, 0, 1, 2, 3, 4, 6])
    specs = [dict(mid=0, params=["x"], anns={"x": T}, body=["return (0,)"], prio=2)]   # priority 1: T decides alone
    for i in range(ncomp):
        specs.append(dict(mid=i + 1, params=["x"], anns={"x": atoms(rng) if rng.random() < 0.8 else rng.choice([str, dict, tuple, list, int])}, body=[f"return ({i+1},)"], prio=1 if rng.random() < 0.5 else 0))
    specs.append(dict(mid=99, params=["x"], anns={"x": object}, body=["return (99,)"], prio=0))
    try: o = build(specs); o.compile()
    except Exception as e: return str(T), [("build", type(e).__name__, str(e)[:80])]
    NT = normalize_type(T, None)
    out = []
    membs = getattr(NT, "__args__", ()) if type(NT).__name__ == "MetaMC" else ()
    for v in VALS:
        f6 = bool(membs) and any(hasattr(m, "bound") and not isinstance(v, m.bound) for m in membs)
        if f6: F6[0] += 1; continue
        try: inst = isinstance(v, NT)
        except Exception as e: inst = ("isinstance-exc", type(e).__name__, str(e)[:50])
        got = outcome(lambda: o(v))
        ran0 = got[0] == "ran" and got[1][0] == 0
        amb = got[0] == "amb"
        if got[0] in ("exc", "typeerror"): out.append(("crash", repr(v), got[2:], inst)); continue
        if isinstance(inst, tuple): out.append(("isinstance-crash", repr(v), inst)); continue
        # method 0 must be entered iff inst, unless ambiguity with an equal-priority companion that also matches
        if inst and not ran0 and not amb: out.append(("missed", repr(v), got[:2]))
        if not inst and ran0: out.append(("false-match", repr(v)))
    return str(T), out
stats = collections.Counter(); exs = collections.defaultdict(list)
for seed in range(int(sys.argv[1])):
    T, out = run(seed)
    stats["progs"] += 1
    for x in out:
        stats[x[0]] += 1
        if len(exs[x[0]]) < 4: exs[x[0]].append((seed, T, x))
print(stats, 'F6-precondition skipped', F6)
for k, v in exs.items():
    for e in v: print(k, e)
