"""C11 - Literal and the built-in value types match exactly their documented values.

Monitor: every case registers one *target* method on a value type T (Literal[...], tuple[...], shallow
list / Sequence / Collection / Mapping / dict element types, Regexp, StartsWith, EndsWith, HasKey and their
& / | combinations), 0-9 *companion* methods at the same position that steer the dispatcher generator onto
each of its code paths (sizes on both sides of the lookup-table threshold, disjoint / overlapping / multi-valued /
mixed-type literals, other value types, a second constrained position) and a low-priority catch-all, so that
"T did not match" is observable as the catch-all (or a companion) running.  Oracle: the set M of methods whose
type contains the value - for Literal by the documented equality semantics (three-valued: equality across types is
unspecified), for every other type by the type's own ``isinstance`` (the statement's wording; a different code
path from the emitted checking expression).  |M| = 0 -> the catch-all must run; |M| = 1 -> that method must run;
|M| >= 2 -> any member of M or the ambiguity error (order among value types is C10 / C12's matter).
"""
import linecache

from .. import boot  # noqa: F401
from .. import gen, tx as T
from ..observe import pin
from ..prog import Program

from ovld.types import normalize_type

ID = "C11"
LEVEL = "exploration"
RULE = ("cases = one target value type (grammar above, nesting <= 2) x companion set of 0-9 methods (literal families "
        "around the table threshold 4, overlapping / multi-valued / mixed-type literals, other value types, second "
        "position) x 40-value corpus covering every bound (ints incl. bool / subclass / large, strings, tuples, lists, "
        "dicts, None, floats); distinct_nontrivial = distinct (target type, companion shape, value) triples")
ASSUMPTIONS = [
    "for non-Literal value types the type's own isinstance() is the specification (statement)",
    "Literal equality across types (True == 1, 1.0 == 1, MyInt(2) == 2) is unspecified",
    "when several registered value types contain the value, any of them or the ambiguity error is accepted here",
]
REPORT_COUNTERS = ["programs", "calls", "decided_none_matches", "decided_one_matches", "multi_match_skipped",
                   "target_matched", "target_literal", "target_container", "target_string", "target_combination",
                   "companions_ge4_literals", "strategy_table", "strategy_counting", "strategy_ifchain", "second_position"]

CORPUS = [["v", 0], ["v", 1], ["v", 2], ["v", 3], ["v", 5], ["v", 1000], ["v", -1], ["v", True], ["v", False],
          ["mi", 1], ["mi", 2], ["v", 1.0], ["v", 2.5], ["v", None],
          ["v", "a"], ["v", "ab"], ["v", "b"], ["v", "ba"], ["v", "abc"], ["v", ""], ["ms", "ab"],
          ["v", "{"], ["v", "{}"], ["v", "{arg}"], ["v", "{{"], ["v", "a'b"], ["v", 'a"b'], ["v", "a\\b"], ["v", "%d"], ["v", "+"], ["v", "+-"],
          ["en", "RED"], ["en", "BLUE"], ["v", "inf"], ["v", "-inf"],
          ["t"], ["t", ["v", 1]], ["t", ["v", "a"]], ["t", ["v", 1], ["v", "a"]], ["t", ["v", "a"], ["v", 1]],
          ["t", ["mi", 1]], ["t", ["v", True]], ["t", ["t", ["v", 1]]], ["t", ["v", 1], ["v", 2], ["v", 3]],
          ["l"], ["l", ["v", 1]], ["l", ["v", "a"]], ["l", ["v", 1], ["v", "a"]], ["l", ["v", "a"], ["v", 1]],
          ["d"], ["d", [["v", "k"], ["v", 1]]], ["d", [["v", "a"], ["v", "b"]]], ["d", [["v", 1], ["v", "k"]]],
          ["d", [["v", "k"], ["v", 1]], [["v", "j"], ["v", "x"]]]]


def plan(tier):
    n = 4000 if tier == "quick" else 60000
    return {"cases": n, "params": {}, "timeout_s": 1500 if tier == "quick" else 7200,
            "min": {"calls": 50_000, "decided_one_matches": 10_000, "target_matched": 5_000, "target_literal": 300,
                    "target_container": 300, "target_string": 300, "target_combination": 300,
                    "companions_ge4_literals": 300}}


# strings with characters that mean something to str.format, %-formatting, repr and regular expressions: Literal values
# end up inside generated source text
LIT_VALUES = [0, 1, 2, 3, 5, 1000, -1, "a", "ab", "b", True, "{", "{}", "{arg}", "a'b", 'a"b', "a\\b", "%d", "+-",
              ["en", "RED"], ["en", "BLUE"], ["mi", 2], ["v", "inf"]]     # values whose repr is not source text for the value


def _gen_literal(rng, kmax=3):
    k = rng.choice([1, 1, 2, 3][:kmax + 1])
    vals = []
    for v in rng.sample(LIT_VALUES, k):
        # typing.Literal de-duplicates by (value, type); keep the expression identical to what typing builds
        if all(not (v == o and type(v) is type(o)) for o in vals):
            vals.append(v)
    return ["L", *vals]


def _gen_elem(rng):
    return rng.choice(["int", "str", "MyInt", "object", "bool", ["L", 1], ["L", "a"], ["U", "int", "str"]])


def _gen_value_type(rng, depth=0):
    r = rng.random()
    if r < 0.25:
        return _gen_literal(rng)
    if r < 0.40:
        n = rng.choice([0, 1, 1, 2, 2, 3])
        return ["T", *[_gen_elem(rng) if depth or rng.random() < 0.8 else ["T", _gen_elem(rng)] for _ in range(n)]]
    if r < 0.55:
        h = rng.choice(["Ls", "Sq", "Co"])
        return [h, _gen_elem(rng)]
    if r < 0.62:
        return [rng.choice(["Mp", "Dc"]), rng.choice(["str", "int", "object"]), rng.choice(["int", "str", "object"])]
    if r < 0.80:
        return rng.choice([["Rx", "^a"], ["Rx", "b$"], ["Rx", "a.c"], ["SW", "a"], ["SW", "ab"], ["EW", "a"], ["EW", "b"],
                           ["HK", "k"], ["HK", "k", "j"], ["HK", "a"]])
    if depth >= 1:
        return _gen_literal(rng)
    if rng.random() < 0.3:
        # two levels of combination with no value-dependent type as a *direct* member of the outer one
        sw = rng.choice([["SW", "a"], ["Rx", "^a"], ["EW", "b"], ["EW", "a"]])
        ew = rng.choice([["EW", "c"], ["SW", "ab"], ["Rx", "b$"], ["HK", "k"]])
        return rng.choice([["U", ["I", sw, ew], "NoneType"], ["I", "str", ["U", sw, ew]], ["U", ["I", sw, "MyStr"], "int"],
                           ["U", ["U", _gen_literal(rng), "tuple"], "NoneType"]])
    a, b = _gen_value_type(rng, 1), _gen_value_type(rng, 1)
    if T.tname(a) == T.tname(b):
        return a
    if rng.random() < 0.6:
        cls = rng.choice([None, None, "int", "str", "tuple"])
        return ["U", a, b] if cls is None else ["U", a, cls]
    # '&' needs both sides to be ovld types (Literal members stay out: the normalizer never visits them there)
    amp = [x for x in (a, b) if x[0] in ("Rx", "SW", "EW", "HK")]
    if len(amp) == 2:
        return ["I", amp[0], amp[1]]
    if amp:
        return ["I", amp[0], rng.choice(["str", "MyStr", "dict", "object"])]
    return ["U", a, b]


def gen_case(rng, params, idx):
    target = _gen_value_type(rng)
    npos = rng.choice([1, 1, 1, 1, 1, 1, 2, 2, 3])
    methods = [{"mid": 0, "pos": [{"n": "a0", "t": target}], "kw": [], "prio": 0, "kind": "leaf"}]
    shape = rng.choice(["none", "few_lits", "many_lits", "many_lits", "overlap_lits", "mixed", "other_types"])
    if shape == "many_lits" and rng.random() < 0.5:
        npos = 3        # three positions: room for methods of one rank that trade specificity between positions
    comps = []
    if shape == "few_lits":
        comps = [_gen_literal(rng, 1) for _ in range(rng.randint(1, 2))]
    elif shape == "many_lits":
        vals = rng.sample(LIT_VALUES, rng.randint(4, 9))
        comps = [["L", v] for v in vals]
        if rng.random() < 0.4:
            comps[0] = ["L", vals[0], rng.choice([v for v in LIT_VALUES if v not in vals] or [7])]
    elif shape == "overlap_lits":
        comps = [_gen_literal(rng) for _ in range(rng.randint(3, 7))]
    elif shape == "mixed":
        comps = [_gen_literal(rng) if rng.random() < 0.5 else _gen_value_type(rng, 1) for _ in range(rng.randint(2, 8))]
    elif shape == "other_types":
        comps = [_gen_value_type(rng, 1) for _ in range(rng.randint(1, 5))]
    seen = {T.tname(target)}
    for c in comps:
        if T.tname(c) in seen:
            continue
        seen.add(T.tname(c))
        methods.append({"mid": len(methods), "pos": [{"n": "a0", "t": c}], "kw": [], "prio": 0, "kind": "leaf"})
    for j in range(1, npos):
        for m in methods:
            m["pos"].append({"n": f"a{j}", "t": rng.choice(["int", "object", ["L", 1], "int", "MyInt", ["L", 1, 2]] if j == 1
                                                            else ["object", "int", "MyInt", "object"])})
    methods.append({"mid": 99, "pos": [{"n": f"a{j}", "t": "object"} for j in range(npos)], "kw": [], "prio": -1,
                    "kind": "leaf"})
    rests = []
    for _ in range(4 if npos > 1 else 1):
        r = [rng.choice([["v", 1], ["v", 2], ["v", "a"], ["mi", 1]]) for _ in range(1, npos)]
        if r not in rests:
            rests.append(r)
    return {"hier": [], "methods": methods, "npos": npos, "shape": shape, "rest": rests[0], "rests": rests}


def _family(t):
    h = t[0]
    if h == "L":
        return "literal"
    if h in ("T", "Ls", "Sq", "Co", "Mp", "Dc"):
        return "container"
    if h in ("Rx", "SW", "EW", "HK"):
        return "string"
    return "combination"


def _contains(tobj, tx, env, v):
    """True / False / None"""
    if tx[0] == "L":
        return T.accepts(tx, env, v)
    try:
        return bool(isinstance(v, tobj))
    except Exception as e:  # noqa: BLE001
        return ("EXC", type(e).__name__, str(e)[:60])


def check_case(spec, res):
    pin()
    env = T.Env([])
    env.predlog.keep = False
    try:
        prog = Program(spec, env=env, tag="c11")
        prog.ov.compile()
    except Exception as e:  # noqa: BLE001
        res.violation("build-failed", [type(e).__name__, str(e)[:40]], spec, observed=f"{type(e).__name__}: {e}"[:200],
                      acceptable="the method set builds")
        return
    methods = spec["methods"]
    target = methods[0]["pos"][0]["t"]
    res.count("programs")
    res.count("target_" + _family(target))
    res.sample(spec, _family(target))
    if sum(1 for m in methods if m["pos"][0]["t"][0] == "L") >= 4:
        res.count("companions_ge4_literals")
    if spec["npos"] >= 2:
        res.count("second_position")
    tobjs = {m["mid"]: normalize_type(T.ann(m["pos"][0]["t"], env), None) for m in methods}
    shape = [spec["shape"], len(methods), spec["npos"]]
    rests = spec.get("rests") or [spec.get("rest") or ([spec["second"]] if spec.get("second") else [])]
    for vx, rest in [(vx, rest) for rest in rests for vx in CORPUS]:
        v = T.value(vx, env)
        call = {"pos": [vx] + rest, "kw": {}}
        second_ok = {}
        M, unspec, broken = [], False, None
        for m in methods[:-1]:
            c = _contains(tobjs[m["mid"]], m["pos"][0]["t"], env, v)
            if isinstance(c, tuple):
                broken = (m["mid"], c)
                break
            skip = False
            for j, rv in enumerate(rest, start=1):
                c2 = T.accepts(m["pos"][j]["t"], env, T.value(rv, env))
                if c2 is None:
                    unspec = True
                elif c2 is False:
                    skip = True
            if skip:
                continue
            if c is None:
                unspec = True
            elif c:
                M.append(m["mid"])
        res.ev()
        res.count("calls")
        out = prog.call(call)
        if broken is not None:
            res.violation("isinstance-raises", [T.tname(methods[broken[0]]["pos"][0]["t"])[:30], broken[1][1]], spec,
                          observed={"value": T.vname(vx), "type": T.tname(methods[broken[0]]["pos"][0]["t"]), "error": broken[1]},
                          acceptable="isinstance answers")
            continue
        if out[0] == "ran" and isinstance(out[2], tuple) and out[2][0] == "m":
            obs = ("win", out[2][1])
        elif out[0] == "amb":
            obs = ("amb",)
        elif out[0] in ("none", "bind"):
            obs = ("none",)
        else:
            obs = tuple(str(x) for x in out[:3])
        if unspec:
            res.skip_unspec()
            continue
        if 0 in M:
            res.count("target_matched")
        res.nontrivial([T.tname(target), shape, T.vname(vx)])
        if len(M) == 0:
            res.count("decided_none_matches")
            exp = [("win", 99)]
        elif len(M) == 1:
            res.count("decided_one_matches")
            exp = [("win", M[0])]
        else:
            res.count("multi_match_skipped")
            exp = [("win", m) for m in M] + [("amb",)]
        if obs not in exp:
            finding = None
            if obs[0] == "exc" and obs[1] == "CycleError":
                from .c06 import _asymmetric_pairs
                if _asymmetric_pairs(dict(spec, extras=[]), env):
                    finding = "F8"     # the real order relation is asymmetric / cyclic on this program's types
            res.violation("match-vs-isinstance", [_family(target), spec["shape"], obs[0], len(M)] if finding is None else ["CycleError"], spec, finding=finding,
                          observed={"value": T.vname(vx), "outcome": obs, "target": T.tname(target)},
                          acceptable={"containing_methods": M, "acceptable": exp})
    seen = set()
    for fn in list(prog.ov.map.values()):
        code = getattr(fn, "__code__", None)
        if code is None or "specialized_dispatch" not in getattr(fn, "__name__", "") or id(fn) in seen:
            continue
        seen.add(id(fn))
        ent = linecache.cache.get(code.co_filename)
        src = "".join(ent[2]) if ent else ""
        if ".get(" in src and "HANDLER = " in src:
            res.count("strategy_table")
        elif "SUMMATION" in src:
            res.count("strategy_counting")
        else:
            res.count("strategy_ifchain")
    prog.close()
