"""F47 (C18 / C16 / C05): the rebuild of a *parent* fails (or is interrupted); its linked copy, already built, kept
answering from the table of the previous set of methods.  Before the fix: c(1.5) -> 'object' while p(1.5) raises."""
from ovld import call_next, ovld
from ovld.utils import UsageError


@ovld
def p(x: int):
    return "int"


@p.register
def p(x: object):
    return "object"


@p.variant(linkback=True)
def c(x: str):
    return "str"


assert (p(1), c(1), c("a")) == ("int", "int", "str")


def bad(x: float):
    nxt = call_next
    return nxt(x)


try:
    p.register(bad)
    raise SystemExit("register did not fail")
except UsageError:
    pass

for f in (p, c):
    for v in (1, 1.5, "a"):
        try:
            r = f(v)
        except UsageError:
            continue
        raise SystemExit(f"{f.__name__}({v!r}) answered {r!r} while an invalid method is registered")
p.unregister(bad)
assert (p(1.5), c(1.5), c("a")) == ("object", "object", "str")
print("ok")
