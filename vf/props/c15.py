"""C15 - equivalent spellings of an annotation dispatch identically.

Monitor (metamorphic, same method set, order pinned): the outcome vector over a value corpus of a program whose
target parameter is written in the canonical form is compared with the vector of the *same* program with that one
annotation respelled - and with every respellable annotation respelled at once.  Families, exactly as listed in
the statement: typing.Union[A, B] / A | B / (A, B) / every member order; Optional[A] / A | None / None | A /
typing.Union[A, None]; missing annotation / typing.Any / object; Annotated[A, ...] / A; a string annotation / the
type it names; list[A] / typing.List[A] (also dict, tuple, Sequence, Mapping); the values of a Literal in any order.
"""
import itertools
import typing
import collections.abc as cabc

from .. import boot  # noqa: F401
from .. import gen, tx as T
from ..methods import MISSING_ANN
from ..observe import pin
from ..prog import Program, norm

ID = "C15"
LEVEL = "exploration"
RULE = ("cases = 7 spelling families x companion sets (a more general and a more specific companion, an overlapping "
        "union, >= 4 Literal methods, a second position) x every spelling of the family (member orders exhaustively up "
        "to 3 members) x a value corpus of hierarchy instances, None, builtins, containers and the literal values and "
        "their neighbours; distinct_nontrivial = distinct (family, spelling, companion shape) triples compared")
ASSUMPTIONS = [
    "string annotations are resolved against the method's globals (the harness puts the class names there)",
    "iteration order pinned identically for every spelling",
]
REPORT_COUNTERS = ["programs", "spellings_compared", "vector_entries", "family_union", "family_optional", "family_any",
                   "family_annotated", "family_string", "family_generic", "family_literal", "all_at_once_compared", "type_of_class_targets"]

FAMILIES = ["union", "optional", "any", "annotated", "string", "generic", "literal"]


def plan(tier):
    n = 1400 if tier == "quick" else 28000
    return {"cases": n, "params": {}, "timeout_s": 1500 if tier == "quick" else 7200,
            "min": {"spellings_compared": 4_000, **{f"family_{f}": 100 for f in FAMILIES}, "all_at_once_compared": 500}}


def gen_case(rng, params, idx):
    fam = FAMILIES[idx % len(FAMILIES)]
    hier = gen.gen_hierarchy(rng, rng.randint(2, 5), attrs=False)
    names = [s["name"] for s in hier]
    pool = names + ["object", "int", "str"]
    npos = rng.choice([1, 1, 2])
    tpos = rng.randrange(npos)

    def other():
        return rng.choice(pool)

    # the target type of the family (a tx) - its spellings are produced at check time
    if fam == "union":
        k = rng.choice([2, 2, 3])
        target = ["U", *rng.sample(pool, k)]
        if rng.random() < 0.3:    # a member that itself needs normalising
            target[-1] = rng.choice([["L", 1], ["L", "a", "b"], ["Ls", "int"], ["T", "int", "str"]])
    elif fam == "optional":
        target = ["U", rng.choice(names + ["int", "str"]), "NoneType"]
    elif fam == "any":
        target = "object"
    elif fam == "annotated":
        target = rng.choice(pool + [["U", *rng.sample(names + ["int"], 2)], ["L", 1, 2], ["Ty", rng.choice(names + ["int"])],
                                    ["Ty", rng.choice(names + ["int"])]])
    elif fam == "string":
        target = rng.choice(names + ["int", "object", ["U", *rng.sample(names + ["int"], 2)], ["Ty", rng.choice(names + ["int"])],
                                    ["Ty", rng.choice(names + ["int"])]])
    elif fam == "generic":
        o = rng.choice(["list", "dict", "tuple", "Sequence", "Mapping"])
        a = rng.choice(["int", "str"] + names)
        target = {"list": ["Ls", a], "dict": ["Dc", "str", a], "tuple": ["T", a, "str"], "Sequence": ["Sq", a],
                  "Mapping": ["Mp", "str", a]}[o]
    else:
        # (-1 and -2 are distinct values with the same hash)
        target = ["L", *rng.sample([0, 1, 2, 3, "a", "b", True, 1000, -1, -2], rng.choice([2, 2, 3]))]
        if rng.random() < 0.15:
            target = ["L", -1, -2] + ([rng.choice([0, "a", 3])] if rng.random() < 0.4 else [])
    methods = []

    def meth(t, prio=0):
        pos = [{"n": f"a{j}", "t": (t if j == tpos else other())} for j in range(npos)]
        methods.append({"mid": len(methods), "pos": pos, "kw": [], "prio": prio, "kind": "leaf"})

    meth(target)
    # companions
    comp = rng.choice(["general+specific", "overlap-union", "literals", "random", "none", "duplicate", "duplicate"])
    if comp == "general+specific":
        meth("object")
        meth(rng.choice(names))
    elif comp == "overlap-union":
        meth(["U", *rng.sample(pool, 2)])
        meth(rng.choice(pool))
    elif comp == "literals":
        for v in rng.sample([0, 1, 2, 3, 5, "a", "b"], rng.randint(4, 5)):
            meth(["L", v])
        meth("int")
    elif comp == "duplicate":
        # a second method with the *same* signature (canonical spelling): respelling the first one must leave them
        # identical signatures - the later one keeps replacing the earlier one
        methods.append({"mid": len(methods), "pos": [dict(p) for p in methods[0]["pos"]], "kw": [], "prio": 0, "kind": "leaf"})
        if rng.random() < 0.5:
            meth("object", prio=-1)
    elif comp == "random":
        for _ in range(rng.randint(1, 4)):
            meth(gen.gen_wide_tx(rng, names, depth=1), prio=rng.choice([0, 0, 1]))
    if rng.random() < 0.5:
        meth("object", prio=-1)
    return {"hier": hier, "methods": methods, "npos": npos, "family": fam, "tpos": tpos, "companions": comp,
            "valseed": rng.randrange(1 << 30)}


# ------------------------------------------------------------------------------------------- spellings
def spellings(fam, tx, env):
    """[(label, annotation object | MISSING_ANN)] - the first is the canonical one."""
    A = lambda t: T.ann(t, env)  # noqa: E731
    if fam == "union":
        ms = [A(m) for m in tx[1:]]
        out = []
        for perm in itertools.permutations(range(len(ms))):
            p = [ms[i] for i in perm]
            tag = "".join(map(str, perm))
            out.append((f"typing.Union[{tag}]", typing.Union[tuple(p)]))
            u = p[0]
            for m in p[1:]:
                u = u | m
            out.append((f"pipe[{tag}]", u))
            out.append((f"tuple[{tag}]", tuple(p)))
        return out
    if fam == "optional":
        a = A(tx[1])
        return [("typing.Union[A,None]", typing.Union[a, None]), ("Optional[A]", typing.Optional[a]), ("A|None", a | None),
                ("None|A", None | a), ("(A, NoneType)", (a, type(None))), ("(A, None)", (a, None)), ("(None, A)", (None, a)),
                ("typing.Union[None,A]", typing.Union[None, a])]
    if fam == "any":
        return [("object", object), ("missing", MISSING_ANN), ("typing.Any", typing.Any),
                ("Annotated[Any,'m']", typing.Annotated[typing.Any, "m"]), ("Annotated[object,'m']", typing.Annotated[object, "m"])]
    if fam == "annotated":
        a = A(tx)
        return [("A", a), ("Annotated[A,'m']", typing.Annotated[a, "m"]), ("Annotated[A,int,3]", typing.Annotated[a, int, 3])]
    if fam == "string":
        a = A(tx)
        if isinstance(tx, str):
            s = tx
            return [("object", a), ("'name'", s)]
        if tx[0] == "Ty":
            return [("object", a), ("'type[A]'", f"type[{tx[1]}]")]     # typing.Type[A] is not among the listed forms
        s = " | ".join(tx[1:])
        return [("object", a), ("'A | B'", s), ("'typing.Union[A, B]'", f"typing.Union[{', '.join(tx[1:])}]")]
    if fam == "generic":
        h = tx[0]
        args = [A(x) for x in tx[1:]]
        if h == "Ls":
            return [("list[A]", list[args[0]]), ("typing.List[A]", typing.List[args[0]])]
        if h == "Dc":
            return [("dict[K,V]", dict[args[0], args[1]]), ("typing.Dict[K,V]", typing.Dict[args[0], args[1]])]
        if h == "T":
            return [("tuple[A,B]", tuple[tuple(args)]), ("typing.Tuple[A,B]", typing.Tuple[tuple(args)])]
        if h == "Sq":
            return [("abc.Sequence[A]", cabc.Sequence[args[0]]), ("typing.Sequence[A]", typing.Sequence[args[0]])]
        return [("abc.Mapping[K,V]", cabc.Mapping[args[0], args[1]]), ("typing.Mapping[K,V]", typing.Mapping[args[0], args[1]])]
    if fam == "literal":
        vals = tx[1:]
        return [("Literal" + str(list(p)), typing.Literal[tuple(p)]) for p in itertools.permutations(vals)]
    raise ValueError(fam)


def _respellable(tx):
    """family applicable to an arbitrary companion annotation (for the all-at-once variant)"""
    if isinstance(tx, str):
        return "any" if tx == "object" else "annotated"
    if tx[0] == "U" and all(isinstance(m, str) for m in tx[1:]):
        return "union"
    if tx[0] == "L" and len(tx) > 2:
        return "literal"
    return "annotated"


def check_case(spec, res):
    import random
    pin()
    env = T.Env(spec["hier"])
    rng = random.Random(spec["valseed"])
    fam = spec["family"]
    target = spec["methods"][0]["pos"][spec["tpos"]]["t"]
    res.count("programs")
    res.count("family_" + fam)
    res.sample(spec, fam)
    names = [s["name"] for s in spec["hier"]]
    vals = [["i", n] for n in names] + [["i", "object"], ["v", None], ["v", 0], ["v", 1], ["v", 2], ["v", 3], ["v", 4],
                                        ["v", 1000], ["v", -1], ["v", -2], ["v", True], ["v", "a"], ["v", "b"], ["v", "c"], ["mi", 1], ["v", 2.5],
                                        ["l"], ["l", ["v", 1]], ["l", ["v", "a"]], ["l", ["i", names[0]]],
                                        ["t", ["v", 1], ["v", "a"]], ["t", ["v", "a"], ["v", "a"]], ["t", ["i", names[0]], ["v", "s"]],
                                        ["d"], ["d", [["v", "k"], ["v", 1]]], ["d", [["v", "k"], ["v", "a"]]],
                                        ["d", [["v", "k"], ["i", names[0]]]]]
    if not isinstance(target, str) and target[0] == "Ty":
        # classes passed as arguments
        vals = vals + [["c", n] for n in names] + [["c", "int"], ["c", "bool"], ["c", "object"], ["c", "str"]]
        res.count("type_of_class_targets")
    if spec["npos"] == 1:
        calls = [{"pos": [v], "kw": {}} for v in vals]
    else:
        calls = []
        for v in vals:
            for _ in range(2):
                w = rng.choice(vals)
                calls.append({"pos": [v, w] if spec["tpos"] == 0 else [w, v], "kw": {}})

    def vector(overrides, tag):
        prog = Program(spec, env=env, tag=tag, ann_overrides=overrides, ns={**env.names, "typing": typing})
        out = []
        for c in calls:
            out.append(norm(prog.call(c))[:3:2] if False else _o(prog.call(c)))
        prog.close()
        return out

    from .c06 import _asymmetric_pairs
    incoherent = _asymmetric_pairs(dict(spec, extras=[]), env)   # F8 precondition, read from the library

    pname = f"a{spec['tpos']}"
    sp = spellings(fam, target, env)
    try:
        base = vector({0: {pname: sp[0][1]}}, "c15b")
    except Exception as e:  # noqa: BLE001
        res.violation("canonical-spelling-rejected", [fam, type(e).__name__], spec,
                      observed=f"{type(e).__name__}: {e}"[:200], acceptable="builds")
        return
    for label, annot in sp[1:]:
        res.ev()
        res.count("spellings_compared")
        res.nontrivial([fam, label, spec["companions"], spec["npos"]])
        try:
            vec = vector({0: {pname: annot}}, "c15s")
        except Exception as e:  # noqa: BLE001
            res.violation("spelling-rejected", [fam, label.split("[")[0], type(e).__name__], spec,
                          observed={"spelling": label, "error": f"{type(e).__name__}: {e}"[:160]},
                          acceptable="accepted like the canonical spelling")
            continue
        res.count("vector_entries", len(vec))
        for c, a, b in zip(calls, base, vec):
            if a != b:
                res.violation("spelling-changes-dispatch", [fam, label.split("[")[0], a[0], b[0]], spec,
                              observed={"spelling": label, "canonical": sp[0][0], "call": c, "canonical_outcome": a,
                                        "respelled_outcome": b},
                              acceptable="identical outcomes", finding="F8" if incoherent else None)
                break
    # all respellable annotations at once (second spelling of each)
    overrides = {}
    for m in spec["methods"]:
        for p in m["pos"]:
            f2 = fam if (m["mid"] == 0 and p["n"] == pname) else _respellable(p["t"])
            alts = spellings(f2, p["t"], env)
            if len(alts) > 1:
                overrides.setdefault(m["mid"], {})[p["n"]] = alts[1 + (spec["valseed"] % (len(alts) - 1))][1]
    res.count("all_at_once_compared")
    try:
        vec = vector(overrides, "c15a")
    except Exception as e:  # noqa: BLE001
        res.violation("spelling-rejected", [fam, "all-at-once", type(e).__name__], spec,
                      observed={"error": f"{type(e).__name__}: {e}"[:160]}, acceptable="accepted")
        return
    for c, a, b in zip(calls, base, vec):
        if a != b:
            res.violation("spelling-changes-dispatch", [fam, "all-at-once", a[0], b[0]], spec,
                          observed={"call": c, "canonical_outcome": a, "respelled_outcome": b}, acceptable="identical outcomes",
                          finding="F8" if incoherent else None)
            break


def _o(out):
    if out[0] == "ran":
        return ("win", out[2][1]) if isinstance(out[2], tuple) else ("weird",)
    if out[0] in ("none", "bind"):
        return ("none",)
    if out[0] == "amb":
        return ("amb",)
    return tuple(str(x) for x in out[:3])
