"""F52 (C02 / C05 / C16): f(x: int) -> int redefined as f(x: int) -> str: before the fix f(1) raised "Ambiguous
resolution" (the return annotation was part of the identity of a signature) instead of running the latest one."""
from ovld import ovld
@ovld
def f(x: int) -> int:
    return 1
@f.register
def f(x: int) -> str:
    return "2"
assert f(1) == "2"
@ovld
def g(x: int) -> int:
    return 1
@g.register
def g(x: int):
    return "2"
assert g(1) == "2"
print("ok")
