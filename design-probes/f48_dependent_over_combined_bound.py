"""F48 (C01 / C10): Dependent[list[int] | str, NonEmpty] was entered with ['a'] before the fix (and the condition was
evaluated on it): of a combined bound only the class level of its members was guaranteed."""
import typing
from ovld import ovld, Dependent
from ovld.dependent import dependent_check

log = []
@dependent_check
def NonEmpty(value):
    log.append(value)
    return len(value) > 0

T = Dependent[typing.Union[list[int], str], NonEmpty]

@ovld
def f(x: T):
    return ("dep", x)

@ovld
def f(x: object):
    return ("obj", x)

got = [f(v)[0] for v in ([1], ["a"], "s", "", [], 3, None)]
assert got == ["dep", "obj", "dep", "obj", "obj", "obj", "obj"], got
assert ["a"] not in log and 3 not in log and None not in log, log
print("ok")
