"""Regenerate MANIFEST.json from the table below:  /venv/bin/python -m vf.mkmanifest"""
import json
import os

HERE = os.path.dirname(os.path.dirname(os.path.abspath(__file__)))

BASELINE_OFF = ("cd /repo && env -u OVLD_VERIF /venv/bin/python -m pytest -ra -q -p no:cacheprovider "
                "--timeout=900 --continue-on-collection-errors")

# id -> (category, technique, level text, level note, design ref)
CHECKS = {
    "C13": ("exploration",
            "runtime monitor: documented-meaning predicate vs subclasscheck and vs real dispatch, plus algebraic laws",
            "Every generated (type, class) pair is evaluated twice against an independent transcription of the "
            "documented meaning: by the library's subtype test and by a real call whose generated method body "
            "reports whether it ran. Held on the pairs listed in the evidence, nothing more.",
            "Trusts Python's issubclass/hasattr and the transcription of docs/types.md in vf/tx.py.",
            "DESIGN.md §4 C13"),
    "C14": ("exploration",
            "runtime monitor in generated method bodies vs an independent subtype model for passed type objects",
            "Each call passes classes / parametrised generics / nested parametrisations / typing.Any next to ordinary "
            "values; the method that is entered (or the error kind) is compared with an independent model of "
            "type[...] applicability and preference. Held on the calls listed in the evidence.",
            "Trusts issubclass on origins and typing.get_origin/get_args; Any inside annotations is out of scope.",
            "DESIGN.md §4 C14"),
    "C08": ("exploration",
            "runtime monitor: method-id-tagged result trees vs a reference interpreter over the derivation graph",
            "Random copy/variant/mixin graphs with walker and leaf methods are called on nested inputs on every node; "
            "each result tree names the method that produced every node of the tree, and must equal the tree a "
            "reference interpreter computes on the called node's own effective table.",
            "Parameter types are unambiguous builtin chains (resolution itself is C02's matter).",
            "DESIGN.md §4 C08"),
    "C17": ("exploration",
            "runtime monitor: class-body reference model vs calls on instances of every class after every class statement",
            "Generated class source (OvldBase / OvldMC / plain mixins / create_subclass, extend_super, recurse and "
            "call_next bodies) is executed statement by statement; after each statement every class so far is probed "
            "and compared with a class-body model, which also decides that bases and siblings did not change and "
            "that self is the instance; half of the hierarchies span two module namespaces and end with one more "
            "definition registered on a leaf class, after which every class is probed again.",
            "Builtin parameter types in single-inheritance chains; multi-base inheritance of a name without own "
            "definitions is unspecified; F20/F21 recorded as known findings with defect-model classifiers.",
            "DESIGN.md §4 C17"),
    "C01": ("exploration",
            "runtime monitor at the entry of every generated method body: each bound argument vs the method's own annotation under an independent value semantics",
            "The oracle travels inside the generated methods: at every entry (direct, recurse, call_next, f.next) each "
            "argument that is not the method's own default is checked against the annotation's documented meaning, and a "
            "TypeError from calling a method with a shape it does not accept is flagged too.",
            "Only definite rejections are alarms (cross-type literal equality is unspecified); a wrong-but-acceptable "
            "method is C02/C10's matter.",
            "DESIGN.md §4 C01"),
    "C02": ("exploration",
            "runtime monitor: executable reference model of priority/specificity/latest vs observed method or error; "
            "exhaustive small tier + random programs",
            "Every call's observed outcome (bodies entered, or error kind with no body entered) and resolve() are compared "
            "with a three-valued reference model; the complete tier of <=4-class hierarchies is enumerated, larger "
            "programs are random. Disagreements predicted by the frozen layer-index defect model are the known finding F1.",
            "Trusts issubclass; shapes rejected by Python's own binding count as 'no method'; unsupplied-parameter "
            "differences are unspecified.",
            "DESIGN.md §4 C02"),
    "C03": ("exploration",
            "runtime identity monitor inside the selected method body and at the caller, over every call shape of a signature-set grammar",
            "For every call shape (0-3 positionals x keyword subsets) each received parameter is compared by identity with the "
            "supplied object or the method's own unique default, self with the instance, the result / raised exception with "
            "what the body produced (traceback must pass through the method), and a uniquely applicable documented call "
            "shape must run exactly that method.",
            "Documented call shapes only (positional-by-keyword is not generated); applicability by isinstance on builtin classes.",
            "DESIGN.md §4 C03"),
    "C09": ("translation_validation",
            "runtime differential monitor (translation validation by execution): rewritten method vs its untouched source with recurse / call_next bound to plain callables, compared on evaluation trace, result, exception, traceback lines, defaults",
            "Each grammar-generated body is executed twice - as rewritten by the library and untouched - and the ordered trace of "
            "side effects embedded in every argument expression, results, exception classes, traceback line numbers inside the "
            "method's file and default / keyword-default / closure values must agree; placements the library rejects at build "
            "time are reported.",
            "recurse means 'call the function', call_next 'the function without the current method' or a fresh call; dispatch errors "
            "compared by kind. F12b / F12c are recognised by their build-time error and call-site shape.",
            "DESIGN.md §4 C09"),
    "C18": ("fault_enumeration",
            "runtime fault injection: sys.monitoring LINE-event injector raising at every executed library line of build / rebuild / cache-miss / continuation, plus natural faults (invalid methods, raising user hooks, RecursionError by stack padding); probes vs complete-set reference",
            "The executed source lines of the library during an operation are enumerated as crash points; at each one a "
            "BaseException is raised on a fresh instance and eight probe calls must then behave like a never-faulted function built "
            "from the complete method set. Invalid methods at every registration position must keep failing with a configuration "
            "error and be repaired by unregister.",
            "Faults are exceptions in the calling thread (not process death); a fault inside register() may leave either complete "
            "set; quick samples every 7th crash point, thorough all of them.",
            "DESIGN.md §4 C18"),
    "C19": ("exploration",
            "runtime schedule exploration: cooperative sys.monitoring scheduler forcing thread switches at genuine pre-emption points (exhaustive single pre-emption sweep, sampled double pre-emption, random switching) plus raw OS races; each thread's outcome vs sequential twin and post-run probes",
            "Worker threads are stopped at every function entry, non-inlined call and backward jump inside library code and a "
            "policy decides who runs, so single-pre-emption schedules are enumerated for racing first calls, cache misses, "
            "call_next chains and dependent dispatcher generation; raw races with a 1 us switch interval complement them.",
            "2-3 controlled threads, 2-4 raw threads, GIL build; a timed-out schedule is inconclusive, never a violation.",
            "DESIGN.md §4 C19"),
    "C04": ("exploration",
            "runtime differential monitor: long-lived function vs never-called twin on every call of a history (order pinned)",
            "Each call of a random history (failing calls, nested recurse / call_next / f.next with same and other "
            "argument types) is repeated on a freshly built twin; outcome trees must be equal.",
            "Same method set on both sides so no model is needed; iteration order is pinned on both sides.",
            "DESIGN.md §4 C04"),
    "C05": ("exploration",
            "runtime differential monitor: mutated Ovld / MultiTypeMap vs fresh build of the resulting method set after every mutation",
            "After every register / re-register / unregister of a random history (calls, also failing ones, in between) "
            "all probes are compared with an object built from scratch from the resulting method set.",
            "Resulting set = registrations in order minus unregistered functions; order pinned on both sides.",
            "DESIGN.md §4 C05"),
    "C16": ("exploration",
            "runtime monitor: graph reference model in lock-step, every used node probed after every operation (no silent drift)",
            "Random create / copy / variant / mixin / add_mixins / register / unregister / use histories with and without "
            "linkback; after each step every used node must answer from its model table, a refusal needs a used descendant.",
            "Disjoint builtin parameter types; mixed linkback paths may refuse or propagate.",
            "DESIGN.md §4 C16"),
    "C20": ("exploration",
            "runtime monitor: counters in user class predicates / order hooks and sys.monitoring PY_START counters on resolution entry points",
            "After a warm-up pass every repeated call (direct, recurse, call_next, f.next, resolve()) must leave the user-hook "
            "counters and the counters of the library's type-order / applicability functions unchanged; again after a register().",
            "Failing calls are re-resolved by design and excluded; value conditions are per-call by design.",
            "DESIGN.md §4 C20"),
    "C06": ("exploration",
            "runtime metamorphic monitor: outcome vectors across registration orders, forced iteration orders (order hooks), added inapplicable methods, hash seeds / address layouts in sub-processes",
            "The same program and calls are run under configurations that must not matter; every vector must equal the "
            "canonical one. Iteration orders are forced through the OVLD_VERIF order hooks; hash seed, allocation pattern and "
            "re-run are varied in separate unpinned processes.",
            "Seeds and layouts are sampled. Differences are attributed to F1/F16 only when the frozen transcription predicts "
            "both vectors (or, for added methods, the library's own layer indices of the applicable candidates are seen to "
            "shift), and to F8 only when the real order relation is observed asymmetric or cyclic on the program's types.",
            "DESIGN.md §4 C06"),
    "C10": ("exploration",
            "runtime monitors: predicate-side guard log, entry monitor on dependent parameters, reference model with value-level applicability ('false => absent'), strategy read-back from generated source",
            "Harness-owned conditions log every value they are evaluated on (guard clause); every body entry re-checks bound and "
            "condition; the outcome incl. the error kind is compared with the reference model in which a false dependent "
            "method is absent; parametrised @dependent_check patterns with Any wildcards are ordered by the documented "
            "position-wise rule; the dispatcher strategy exercised (if-chain / table / counting) is read back for the evidence.",
            "Different-bound dependent pairs and cross-type literal equality are unspecified; composite types get clauses (a), "
            "(b) and crash-freedom only; F1-family disagreements need the frozen transcription to predict the observation.",
            "DESIGN.md §4 C10"),
    "C11": ("exploration",
            "runtime monitor: dispatch answer (which generated method body ran) vs the value type's own isinstance / documented Literal equality, over companion sets that steer every generated code path",
            "For each target value type the method that runs for every corpus value is compared with the set of registered "
            "value types that contain the value (isinstance; Literal by equality semantics). Companion sets put the target on "
            "the if-chain, lookup-table and counting paths; the path taken is read back for the evidence.",
            "isinstance of the library's own type objects is the specification for non-Literal types (statement); multi-match "
            "cases accept any containing method or the ambiguity error.",
            "DESIGN.md §4 C11"),
    "C15": ("exploration",
            "runtime metamorphic monitor: outcome vectors of the same program under every equivalent spelling of one annotation (and all at once)",
            "One annotation of a generated program is rewritten in each equivalent form the statement lists (Union spellings and "
            "member orders, Optional forms, missing/Any/object, Annotated, string, typing.List-style generics, Literal value "
            "orders); the vector of outcomes over a value corpus must not change.",
            "Same method set on both sides, order pinned. Differences in programs whose registered types are compared "
            "asymmetrically or cyclically by the real order relation are the known finding F8.",
            "DESIGN.md §4 C15"),
    "C12": ("exploration",
            "runtime law monitor on typeorder: mirror symmetry, reflexivity, issubclass agreement and transitivity, generic and member laws, on generated closures and online on every pair the library compares during dispatch",
            "All ordered pairs of a bounded-depth closure (built twice) are checked against the algebraic laws the statement "
            "names; typeorder is additionally wrapped in the three modules that bound it, so every pair compared during an "
            "embedded dispatch workload is re-asked in the opposite direction.",
            "Only the stated laws raise alarms. F8 asymmetries are attributed only when a frozen transcription of the two "
            "operands' own ordering rules, applied first-operand-wins, reproduces both observed answers.",
            "DESIGN.md §4 C12"),
    "C07": ("exploration",
            "runtime monitor: delegation trees returned by generated bodies vs iterated-removal reference model",
            "Every body reports itself and what its call_next / f.next returned, so one call yields the whole chain; the "
            "chain, its terminal error kind and the fresh-call rule are compared with the reference model on plain, "
            "variant, mixin, method, value-dependent and type[K] (classes as arguments) programs; structural laws (no repeat, non-increasing rank) are "
            "checked model-free.",
            "Delegation from inside a tied rank is unspecified; F1-family and F22 disagreements are attributed only when "
            "the frozen transcription predicts the exact observed chain.",
            "DESIGN.md §4 C07"),
}

PENDING_REASON = ("check not built yet in this session (runtime-monitoring design exists in DESIGN.md §4); "
                  "not claimed until its monitor has been run silent on the unchanged tree")

ALL = [f"C{i:02d}" for i in range(1, 21)]


def main():
    checks = []
    for pid in ALL:
        if pid not in CHECKS:
            continue
        cat, tech, text, note, ref = CHECKS[pid]
        checks.append({
            "property_id": pid,
            "quick_cmd": f"./check {pid} quick",
            "thorough_cmd": f"./check {pid} thorough",
            "evidence_file": f"evidence/{pid}.json",
            "replay_cmd_template": f"./check {pid} --replay {{path}}",
            "engine": "vf",
            "level_claimed": {"category": cat, "text": text, "design_ref": ref},
            "level_note": note,
            "technique": tech,
        })
    man = {
        "version": 1,
        "setup_cmd": "./check --selftest",
        "hooks": {
            "guard": "OVLD_VERIF",
            "enable": "checks import ovld from /repo/src (or $OVLD_SRC) with OVLD_VERIF=1 in the environment; "
                      "nothing is built or cached (PYTHONDONTWRITEBYTECODE=1)",
            "baseline_off_cmd": BASELINE_OFF,
            "source_commits": json.load(open(os.path.join(HERE, "hook_commits.json"))),
            "add_only": True,
        },
        "engines": [{
            "name": "vf", "path": "vf/",
            "serves_properties": sorted(CHECKS),
            "kind_free_text": "runtime monitoring harness: generated programs with in-body monitors, reference-model "
                              "and differential oracles, sys.monitoring fault injector and cooperative scheduler",
        }],
        "checks": checks,
        "not_applicable": [{"property_id": p, "reason": PENDING_REASON} for p in ALL if p not in CHECKS],
        "notes": "Verdicts are three-valued: exit 0 held on what was explored, 1 violation (VIOLATION line), "
                 "2 inconclusive (INCONCLUSIVE line; a deciding monitor was not reached or a shard died).",
    }
    with open(os.path.join(HERE, "MANIFEST.json"), "w") as f:
        json.dump(man, f, indent=1)
        f.write("\n")


if __name__ == "__main__":
    main()
