"""C05 - after register / unregister, behaviour equals a freshly built function.

Monitor (differential, same method set on both sides, order pinned): after **every** mutating
operation of a random history (register, re-register of an already present signature, unregister,
interleaved with calls - including calls that fail - before and after first use), a probe vector is
taken on the long-lived object and on an object built from scratch out of the *resulting method set*
(tracked by a 10-line model: registration appends, unregister removes that function; the fresh build
re-registers in the same order so push-downs of identical signatures reproduce).  Two targets:
(a) Ovld (probe = outcome trees of calls, bodies may delegate with call_next so that the order of
pushed-down identical signatures is visible); (b) the public MultiTypeMap (register + lookups).
"""
import itertools

from .. import boot  # noqa: F401
from .. import gen, tx as T
from ..methods import forget, make_method
from ..observe import pin
from ..prog import Program, PVF, body_lines, norm

from ovld import MultiTypeMap, Ovld
from ovld.core import Signature

ID = "C05"
LEVEL = "exploration"
RULE = ("cases = random histories of 3-25 operations: (a) on an Ovld: register / re-register identical signature / "
        "unregister / call (also failing calls), biased to 'failing call -> mutation that heals it' and 'mutation -> "
        "repeated call'; (b) on MultiTypeMap: register + lookups (incl. lookups that raised); after every mutation all "
        "probes are compared with a fresh build of the resulting set; distinct_nontrivial = distinct histories "
        "(operation kinds + signatures) containing a re-register or an unregister that follows a call")
ASSUMPTIONS = [
    "the resulting method set after a history is: registrations in order minus unregistered functions",
    "iteration order pinned identically on both sides",
]
REPORT_COUNTERS = ["histories_ovld", "histories_ovld_linkback_child", "histories_ovld_linkback_grandchild", "histories_mtm", "mutations", "probe_comparisons", "rereg_ops", "unreg_ops",
                   "mutation_after_failing_probe", "mutation_before_first_use", "mtm_lookups_raised", "histories_ovld_middle"]


def plan(tier):
    n = 2400 if tier == "quick" else 32000
    return {"cases": n, "params": {}, "timeout_s": 1200 if tier == "quick" else 7200,
            "min": {"probe_comparisons": 30_000, "rereg_ops": 500, "unreg_ops": 500,
                    "mutation_after_failing_probe": 200, "histories_mtm": 200}}


def gen_case(rng, params, idx):
    # ovld_lb: every change is made on a parent that is never called itself; calls and probes go to a linkback copy
    # ovld_chain: the copy under test is a *plain* copy of a linkback copy of the function that is modified
    # ovld_mixed: a plain copy under test whose parent also has a *linkback* copy (derived first)
    # ovld_middle: the function that is modified is itself a copy (of a root that is never touched), and the linkback copy
    #             under test was derived from it while it had no method of its own yet
    # ovld_lb2: the copy under test is a linkback copy of a linkback copy (the one in the middle is never called, hence never
    #           built) of the function that is modified
    target = ("mtm" if idx % 4 == 3 else "ovld_middle" if idx % 16 == 9 else "ovld_lb2" if idx % 16 == 1 else "ovld_lb" if idx % 4 == 1
              else "ovld_chain" if idx % 8 == 6 else "ovld_mixed" if idx % 8 == 2 else "ovld")
    hier = gen.gen_hierarchy(rng, rng.randint(2, 5), attrs=False, p_multi=0.5)
    pool = [s["name"] for s in hier] + ["object", "int", "str"]
    npos = rng.choice([1, 1, 2])
    # classes as arguments: type[...] methods come and go (the entry point then changes how it looks arguments up),
    # next to a method on the *metaclass* of some of the classes passed
    types_as_args = target != "mtm" and rng.random() < 0.4
    if types_as_args:
        pool = pool + [["Ty", "int"], ["Ty", rng.choice([s["name"] for s in hier])], ["Ty", "Shape"], "ABCMeta", "ABCMeta"]
    # a *sibling* linkback copy with a method of its own whose first parameter is called c1: registering on the parent
    # a method whose second parameter is called c1 is fine for the parent and for the copy under test, but the sibling
    # cannot be rebuilt with it (one name at two positions) - the change must still reach the copy under test
    sibling = target == "ovld_lb" and npos == 2 and rng.random() < 0.5
    ops, live, mid = [], [], 0
    nops = rng.randint(3, 25)
    last_sig = None
    for _ in range(nops):
        r = rng.random()
        if r < 0.4 or not live:
            n = npos if rng.random() < 0.85 else max(1, npos + rng.choice([-1, 1]))
            pos = [{"n": f"a{j}", "t": rng.choice(pool)} for j in range(n)]
            if rng.random() < 0.3:
                # value-dependent types: their table entries are found through the *bound*, after a plain class may
                # already have been looked up and cached
                pos[rng.randrange(n)]["t"] = rng.choice([["L", 0], ["L", 1], ["L", 0, 1], ["D", "int", "even"], ["D", "object", "truthy"]])
            if target != "mtm" and rng.random() < 0.1 and n >= 1:
                pos[-1] = dict(pos[-1], opt=True)
            if sibling and n == 2 and rng.random() < 0.35:
                pos[1] = dict(pos[1], n="c1")
            m = {"mid": mid, "pos": pos, "kw": [], "prio": rng.choice([0, 0, 0, 1]),
                 "kind": rng.choice(["leaf", "leaf", "next"]) if target != "mtm" else "leaf"}
            ops.append(["reg", m])
            live.append(m)
            mid += 1
        elif r < 0.6:
            src = rng.choice(live)
            m = dict(src, mid=mid, kind=rng.choice(["leaf", "next"]) if target != "mtm" else "leaf")
            ops.append(["reg", m])
            live.append(m)
            mid += 1
        elif r < 0.75 and target != "mtm":
            m = rng.choice(live)
            ops.append(["unreg", m["mid"]])
            live.remove(m)
        else:
            ops.append(["call", rng.randrange(1 << 20)])
    names = [s["name"] for s in hier] + ["object"]
    probes = list(itertools.product(names + ["int"], repeat=npos))
    if len(probes) > 40:
        probes = rng.sample(probes, 40)
    if npos > 1:
        probes += [(n,) for n in rng.sample(names, 2)]
    if types_as_args:
        cls_probes = ["@int", "@Shape", "@Hashable", "@bool"] + ["@" + n for n in names[:3]]
        probes += [tuple(rng.choice(cls_probes) if j == k else rng.choice(names) for j in range(npos))
                   for k in range(npos) for _ in range(6)]
    return {"target": target, "hier": hier, "npos": npos, "ops": ops, "probes": [list(p) for p in probes], "sibling": sibling}


def _val(env, name):
    if name.startswith("@"):
        return env.cls(name[1:])       # the class object itself is the argument
    return 1 if name == "int" else "s" if name == "str" else env.cls(name)()


# ------------------------------------------------------------------------------------------- Ovld target
def _check_ovld(spec, res, env):
    vf = PVF()
    ns = {}
    files = []

    def mk(m, vf_, ns_):
        fn, f = make_method(m, env, vf_, body_lines(m), tag="c05", shared_ns=ns_)
        files.append(f)
        return fn

    H = Ovld()
    if spec["target"] == "ovld_middle":
        root = Ovld()
        rfn, rf = make_method({"mid": 901, "pos": [{"n": "r1", "t": "bytes"}]}, env, vf, ["return ('m', 901)"], tag="c05", shared_ns=ns)
        files.append(rf)
        root.register(rfn)
        H = root.copy(linkback=bool(spec["probes"] and len(spec["probes"]) % 2))
        res.count("histories_ovld_middle")
    S = None
    if spec.get("sibling"):
        S = H.copy(linkback=True)       # derived *before* the copy under test: it is brought up to date first
    # what is called: the function itself, or a linkback copy of it (the parent is then never called)
    C = H.copy(linkback=True) if spec["target"] in ("ovld_lb", "ovld_lb2", "ovld_chain", "ovld_middle") else H
    if spec["target"] == "ovld_lb2":
        middle = C                      # noqa: F841  (kept alive, never called)
        C = C.copy(linkback=True)
        res.count("histories_ovld_linkback_grandchild")
    if spec["target"] == "ovld_chain":
        C = C.copy()
        res.count("histories_ovld_chain")
    if spec["target"] == "ovld_mixed":
        linked_sibling = H.copy(linkback=True)     # noqa: F841  (kept alive: the parent has a linkback child as well)
        C = H.copy()
        res.count("histories_ovld_mixed_children")
    if C is not H:
        res.count("histories_ovld_linkback_child")
    if S is not None:
        sfn, sf = make_method({"mid": 900, "pos": [{"n": "c1", "t": "bytes"}]}, env, vf, ["return ('m', 900)"], tag="c05", shared_ns=ns)
        files.append(sf)
        S.register(sfn)
        res.count("histories_with_sibling_copy")
    hfn = {}
    live = []
    used = False
    failing_seen = False
    res.count("histories_ovld")
    nontrivial = False
    called = False

    def probe(o, vf_):
        from ..observe import outcome
        outs = []
        names = tuple(x for x in (getattr(o, "shortname", None), getattr(o, "__name__", None)) if x)
        for p in spec["probes"]:
            args = [_val(env, n) for n in p]
            outs.append(norm(outcome(lambda: o(*args), vf_, names)))
        return outs

    for i, op in enumerate(spec["ops"]):
        if op[0] == "call":
            if live:
                p = spec["probes"][op[1] % len(spec["probes"])]
                from ..observe import outcome
                out = outcome(lambda: C(*[_val(env, n) for n in p]), vf)
                used = called = True
                if out[0] != "ran":
                    failing_seen = True
            continue
        if op[0] == "reg":
            m = op[1]
            if any(_same_sig(m, o) for o in live):
                res.count("rereg_ops")
                if called:
                    nontrivial = True
            fn = mk(m, vf, ns)
            hfn[m["mid"]] = fn
            if S is not None:
                try:        # keep the sibling built (while it still can be), so that changes are pushed into it
                    S(b"x")
                except Exception:  # noqa: BLE001
                    pass
            try:
                H.register(fn, priority=m.get("prio", 0))
            except Exception as e:  # noqa: BLE001
                if "locked for modifications" in str(e) and spec["target"] in ("ovld_chain", "ovld_mixed"):
                    res.count("modifications_refused_locked")     # a refusal is fine, silent drift is not
                    continue
                if not isinstance(e, TypeError) or S is None or fn not in H.defns.values():
                    raise
                res.count("register_raised_for_the_sibling_only")      # the parent did take the method
            live.append(m)
        else:
            res.count("unreg_ops")
            if called:
                nontrivial = True
            m = next((x for x in live if x["mid"] == op[1]), None)
            if m is None:
                continue        # its registration had been refused (locked)
            try:
                H.unregister(hfn[m["mid"]])
            except Exception as e:  # noqa: BLE001
                if "locked for modifications" in str(e) and spec["target"] in ("ovld_chain", "ovld_mixed"):
                    res.count("modifications_refused_locked")
                    continue
                raise
            live.remove(m)
        res.count("mutations")
        if not used:
            res.count("mutation_before_first_use")
        if failing_seen:
            res.count("mutation_after_failing_probe")
            failing_seen = False
        if not live:
            continue
        # fresh build of the resulting set
        fvf, fns = PVF(), {}
        F = Ovld()
        if spec["target"] == "ovld_middle":      # the root's method is part of the resulting set
            rfn2, rf2 = make_method({"mid": 901, "pos": [{"n": "r1", "t": "bytes"}]}, env, fvf, ["return ('m', 901)"], tag="c05", shared_ns=fns)
            files.append(rf2)
            F.register(rfn2)
        for m in live:
            F.register(mk(m, fvf, fns), priority=m.get("prio", 0))
        try:
            exp = probe(F, fvf)
        except Exception:  # noqa: BLE001
            raise
        got = probe(C, vf)
        used = True
        if any(o[0] != "ran" for o in got):
            failing_seen = True
        for p, g, e in zip(spec["probes"], got, exp):
            res.ev()
            res.count("probe_comparisons")
            if g != e:
                res.violation("mutated-vs-fresh", ["ovld", op[0], g[0], e[0]], spec,
                              observed={"after_op": i, "op": op if op[0] != "reg" else ["reg", op[1]["mid"]], "probe": p,
                                        "mutated": g, "fresh": e},
                              acceptable="equal")
                return nontrivial
    forget(files)
    return nontrivial


def _same_sig(a, b):
    from ..refmodel import sig_identical
    return a.get("prio", 0) == b.get("prio", 0) and sig_identical(a, b)


# ------------------------------------------------------------------------------------------- MultiTypeMap target
def _check_mtm(spec, res, env):
    res.count("histories_mtm")

    def handler(mid, n=1):
        # real positional parameters: the table inspects the first parameter name of a handler
        h = eval("lambda " + ", ".join(f"a{j}" for j in range(n)) + f": {mid}")
        h.__name__ = f"h{mid}"
        return h

    from ovld.types import normalize_type

    def sig(m):
        types = tuple(normalize_type(T.ann(p["t"], env), None) for p in m["pos"])
        return Signature(types=types, return_type=object, req_pos=len(types), max_pos=len(types),
                         req_names=frozenset(), vararg=False, priority=m.get("prio", 0))

    def lookups(mm):
        outs = []
        for p in spec["probes"]:
            tup = tuple(int if n == "int" else str if n == "str" else env.cls(n) for n in p)
            try:
                fn = mm[tup]
                # a handler, or a generated value-dispatcher: identify it by what it answers on sample values
                ans = []
                for k in range(3):
                    vals = [(k if t is int else "s" if t is str else t()) for t in tup]
                    try:
                        ans.append(fn(*vals))
                    except Exception as e:  # noqa: BLE001
                        ans.append("raises " + type(e).__name__)
                outs.append(("handler", ans))
            except KeyError as e:
                poss = e.args[1] if len(e.args) > 1 else ()
                outs.append(("keyerror", "ambiguous" if poss else "notfound",
                             sorted(getattr(c.handler, "__name__", "?") for c in poss) if poss else []))
            except Exception as e:  # noqa: BLE001
                outs.append(("exc", type(e).__name__, str(e)[:60]))
        return outs

    H = MultiTypeMap()
    live = []
    handlers = {}
    failing = False
    nontrivial = False
    looked = False
    for i, op in enumerate(spec["ops"]):
        if op[0] == "call":
            if live:
                p = spec["probes"][op[1] % len(spec["probes"])]
                tup = tuple(int if n == "int" else str if n == "str" else env.cls(n) for n in p)
                try:
                    H[tup]
                except KeyError:
                    failing = True
                    res.count("mtm_lookups_raised")
                looked = True
            continue
        if op[0] != "reg":
            continue
        m = op[1]
        if any(_same_sig(m, o) for o in live):
            # the table has no notion of replacing: identical signature + priority would be a plain tie
            continue
        handlers[m["mid"]] = handler(m["mid"], len(m["pos"]))
        H.register(sig(m), handlers[m["mid"]])
        live.append(m)
        res.count("mutations")
        if failing:
            res.count("mutation_after_failing_probe")
            nontrivial = True
            failing = False
        F = MultiTypeMap()
        for x in live:
            F.register(sig(x), handlers[x["mid"]])
        exp = lookups(F)
        got = lookups(H)
        if any(g[0] != "handler" for g in got):
            failing = True
        for p, g, e in zip(spec["probes"], got, exp):
            res.ev()
            res.count("probe_comparisons")
            if g != e:
                res.violation("mutated-vs-fresh", ["mtm", g[0], e[0]], spec,
                              observed={"after_op": i, "probe": p, "mutated": g, "fresh": e}, acceptable="equal")
                return nontrivial
    return nontrivial


def check_case(spec, res):
    pin()
    env = T.Env(spec["hier"])
    res.sample(spec, spec["target"])
    nt = _check_mtm(spec, res, env) if spec["target"] == "mtm" else _check_ovld(spec, res, env)
    if nt:
        res.nontrivial([spec["target"], [[op[0]] + ([[p["t"] for p in op[1]["pos"]], op[1]["prio"]] if op[0] == "reg" else [])
                                         for op in spec["ops"]]])
