from ovld import Ovld
import traceback
def show(label, fn):
    try: print(label, "->", fn())
    except Exception as e: print(label, "-> EXC", type(e).__name__, str(e).splitlines()[0][:150])

o = Ovld()
@o.register
def f(x: int, y: int = 3, *, k: str = "dk"): return ("A", x, y, k)
@o.register
def f(x: str, y: int = 4): return ("B", x, y)
show("f(1)", lambda: o(1))
show("f(1,k='z')", lambda: o(1, k="z"))
show("f(1,2,k='z')", lambda: o(1, 2, k="z"))
show("f('s')", lambda: o("s"))
show("f('s', k='z')", lambda: o("s", k="z"))
show("f(x=1)", lambda: o(x=1))
show("f(1, y=2)", lambda: o(1, y=2))

# all-optional signature, zero args
o2 = Ovld()
@o2.register
def g(x: int = 5): return ("g", x)
show("g()", lambda: o2())
show("g(1)", lambda: o2(1))
o3 = Ovld()
@o3.register
def h(x: int = 5, y: int = 6): return ("h", x, y)
@o3.register
def h(x: str, y: str = "q"): return ("h2", x, y)
show("h()", lambda: o3())
show("h(1)", lambda: o3(1))
show("h(1,2)", lambda: o3(1,2))
show("h('a')", lambda: o3('a'))
import inspect
print(inspect.signature(o3.dispatch))
import linecache
print("".join(linecache.getlines(o3.dispatch.__code__.co_filename)))
print("".join(linecache.getlines(o.dispatch.__code__.co_filename)))
