import sys, random, collections, itertools
from typing import Literal
from h import *
from ovld import Dependent
from ovld.dependent import Equals
PRED_LOG = []
def mkpred(name, bound, fn):
    def p(x):
        PRED_LOG.append((name, isinstance(x, bound)))
        return fn(x)
    p.__name__ = name
    return p
FAM = [("gt0", lambda x: x > 0), ("lt5", lambda x: x < 5), ("even", lambda x: x % 2 == 0), ("ge3", lambda x: x >= 3), ("t", lambda x: True), ("f", lambda x: False)]
class MyInt(int): pass
VALUES = [-1, 0, 1, 2, 3, 4, 7, True, False, MyInt(2), MyInt(9), "s", 2.5, None]
def run(seed):
    rng = random.Random(seed)
    npos = rng.choice([1, 1, 1, 2])
    params = [f"a{i}" for i in range(npos)]
    specs = []; dep_of = {}
    for i in range(rng.randint(2, 7)):
        anns = {}; conds = {}
        for p in params:
            r = rng.random()
            if r < 0.45:
                bound = rng.choice([int, int, object, bool, MyInt])
                nm, fn = rng.choice(FAM)
                if bound is object:
                    fn2 = (lambda fn: lambda x: isinstance(x, int) and fn(x))(fn)
                else: fn2 = fn
                anns[p] = Dependent[bound, mkpred(f"{nm}{i}{p}", bound, fn2)]; conds[p] = (bound, fn2)
            elif r < 0.6:
                vals = tuple(rng.sample([0, 1, 2, 3, 4], rng.choice([1, 1, 2])))
                anns[p] = Literal[vals]; conds[p] = (int, (lambda vals: lambda x: x in vals)(vals))
            else:
                anns[p] = rng.choice([int, object, bool, MyInt, str, float])
        specs.append(dict(mid=i, params=params, anns=anns, body=[f"return ({i},)"], prio=rng.choice([0, 0, 0, 1]), conds=conds))
    try: o = build(specs)
    except Exception as e: return specs, [("BUILD", type(e).__name__, str(e)[:80])]
    mism = []
    for args in itertools.product(VALUES, repeat=npos) if npos == 1 else [tuple(rng.choice(VALUES) for _ in range(npos)) for _ in range(40)]:
        PRED_LOG.clear()
        got = outcome(lambda: o(*args))
        guard_bad = [n for n, ok in PRED_LOG if not ok]
        if guard_bad: mism.append(("guard", args, guard_bad[:2]))
        if got[0] in ("exc", "typeerror"): mism.append(("crash", args, got)); continue
        # clause (c): remove dependent methods whose condition is false
        keep = set()
        for s in specs:
            ok = True
            for p, a in zip(params, args):
                if p in s["conds"]:
                    b, fn = s["conds"][p]
                    if not (isinstance(a, b) and fn(a)): ok = False
            if ok: keep.add(s["mid"])
        red = build(specs, only=keep) if keep else None
        exp = outcome(lambda: red(*args)) if red else ("none", ())
        if exp[0] in ("exc", "typeerror"): exp = ("none", ())  # empty function etc.
        if got[:2] != exp[:2]: mism.append(("absent", args, got[:2], exp[:2]))
    return specs, mism
stats = collections.Counter(); exs = collections.defaultdict(list)
for seed in range(int(sys.argv[1])):
    specs, mism = run(seed)
    stats["progs"] += 1
    for m in mism:
        kind = m[0] if m[0] != "absent" else ("absent", m[2][0], m[3][0])
        stats[kind] += 1
        if len(exs[kind]) < 2: exs[kind].append((seed, [(s["mid"], {k: str(v) for k, v in s["anns"].items()}, s["prio"]) for s in specs], m))
print(stats)
for k, v in exs.items():
    for e in v: print(k, e)
