"""Generators: hierarchies, type expressions, values.  Everything is a function of the
``random.Random`` handed in; nothing iterates a set or depends on hash()."""
import importlib.abc
import importlib.machinery
import itertools
import sys

from . import tx as T


# --------------------------------------------------------------------------- hierarchies
def gen_hierarchy(rng, n, attrs=True, p_multi=0.35, prefix="K"):
    """Random class DAG spec, C3-linearisable by construction (checked by building it)."""
    specs, built = [], {}
    for i in range(n):
        name = f"{prefix}{i}"
        for _ in range(12):
            k = 0 if not specs else rng.choice([0, 1, 1, 1, 2, 2, 3] if rng.random() < p_multi + 0.3 else [0, 1, 1])
            k = min(k, len(specs))
            bases = rng.sample([s["name"] for s in specs], k)
            bases = [b for b in bases
                     if not any(o != b and issubclass(built[o], built[b]) for o in bases)]
            try:
                c = type(name, tuple(built[b] for b in bases) or (object,), {})
            except TypeError:
                continue
            built[name] = c
            spec = {"name": name, "bases": bases}
            if attrs:
                if rng.random() < 0.25:
                    spec["fly"] = True
                if rng.random() < 0.2:
                    spec["hooked"] = True
                if rng.random() < 0.2:
                    spec["meth"] = True
                if rng.random() < 0.15:
                    spec["shape"] = True
            specs.append(spec)
            break
    return specs


def all_hierarchies(n):
    """Every creation-ordered DAG on n classes (each class picks a subset of the earlier ones as
    bases, antichain, C3-linearisable)."""
    def rec(i, specs, built):
        if i == n:
            yield [dict(s) for s in specs]
            return
        names = [s["name"] for s in specs]
        for k in range(0, len(names) + 1):
            for bases in itertools.permutations(names, k):
                if any(o != b and issubclass(built[o], built[b]) for o in bases for b in bases):
                    continue
                try:
                    c = type(f"K{i}", tuple(built[b] for b in bases) or (object,), {})
                except TypeError:
                    continue
                built[f"K{i}"] = c
                specs.append({"name": f"K{i}", "bases": list(bases)})
                yield from rec(i + 1, specs, built)
                specs.pop()
                del built[f"K{i}"]
    yield from rec(0, [], {})


def subclass_relation(hier):
    """Canonical form of the subclass relation of a hierarchy spec (for de-duplication)."""
    env = T.Env(hier)
    names = [s["name"] for s in hier]
    return tuple(tuple(issubclass(env.cls(a), env.cls(b)) for b in names) for a in names)


# --------------------------------------------------------------------------- synthetic modules
class _SynthFinder(importlib.abc.MetaPathFinder, importlib.abc.Loader):
    """Modules named vfdef_<n> come into existence only when imported (for Deferred[...])."""

    PREFIX = "vfdef_"
    PKG = "vfdefp_"     # packages: <pkg>.base (Thing, Other), <pkg>.impl (Sub(Thing)), <pkg>.api (re-exports),
    #                     <pkg>.extra (Lazy; imported by nobody), and a class Root defined in the package itself
    SUBS = {
        "base": "class Thing:\n    pass\nclass Other:\n    pass\n",
        "impl": "from .base import Thing\nclass Sub(Thing):\n    pass\n",
        "api": "from .base import Thing, Other\nfrom .impl import Sub\n",
        "extra": "class Lazy:\n    pass\n",      # not imported by the package itself
    }

    def find_spec(self, name, path, target=None):
        if name.startswith(self.PREFIX):
            return importlib.machinery.ModuleSpec(name, self)
        if name.startswith(self.PKG):
            pkg, _, sub = name.partition(".")
            if not sub:
                return importlib.machinery.ModuleSpec(name, self, is_package=True)
            if sub in self.SUBS:
                return importlib.machinery.ModuleSpec(name, self)
        return None

    def create_module(self, spec):
        return None

    def exec_module(self, module):
        ns = module.__dict__
        name = module.__name__
        if name.startswith(self.PKG):
            pkg, _, sub = name.partition(".")
            if not sub:
                module.__path__ = []
                exec("from . import base, impl, api\nfrom .api import Thing, Sub, Other\nclass Root:\n    pass\n", ns)
            else:
                exec(self.SUBS[sub], ns)
            return
        exec("class Thing:\n    pass\nclass Sub(Thing):\n    pass\nclass Other:\n    pass\n", ns)


_finder = _SynthFinder()
if not any(isinstance(f, _SynthFinder) for f in sys.meta_path):
    sys.meta_path.append(_finder)

_synth_counter = itertools.count()


def fresh_deferred_module(tag="", package=False):
    return f"{'vfdefp_' if package else 'vfdef_'}{tag}{next(_synth_counter)}"


# --------------------------------------------------------------------------- type expressions
def class_atoms(hier, builtins=("object", "int", "bool", "str"), extras=("HasFly", "Shape", "Hook", "MyInt")):
    return [s["name"] for s in hier] + list(builtins) + list(extras)


def gen_static_tx(rng, atoms, depth, heads=("U", "I", "X", "S", "H", "CC")):
    """Random non-value-dependent type expression."""
    if depth == 0 or rng.random() < 0.25:
        return rng.choice(atoms)
    h = rng.choice(heads)
    if h in ("U", "I"):
        k = rng.choice([2, 2, 3])
        ms = []
        for _ in range(k):
            m = gen_static_tx(rng, atoms, depth - 1, heads)
            if m not in ms:
                ms.append(m)
        if len(ms) < 2:
            return ms[0]
        return [h, *ms]
    if h in ("X", "S"):
        return [h, rng.choice([a for a in atoms if a not in ("HasFly",)])]
    if h == "H":
        return ["H", rng.choice(["fly", "meth", "__len__", "hooked", "bit_length"])]
    if h == "CC":
        return ["CC", rng.choice(sorted(T.CLASS_PREDS))]
    return rng.choice(atoms)


# --------------------------------------------------------------------------- programs
VALUE_POOL = [["v", 1000], ["v", 0], ["v", 1], ["v", 2], ["v", 3], ["v", 4], ["v", -1], ["mi", 1], ["mi", 2], ["mi", 4],
              ["v", "a"], ["v", "ab"], ["v", "b"], ["v", True], ["v", False], ["v", None], ["v", 2.5]]


def values_for(hier, builtin=True):
    vals = [["i", s["name"]] for s in hier] + [["i", "object"]]
    return vals + (VALUE_POOL if builtin else [])


def gen_dep_tx(rng, pool):
    """a value-dependent annotation: Literal or Dependent over a class bound"""
    r = rng.random()
    if r < 0.4:
        k = rng.choice([1, 1, 2, 3])
        if rng.random() < 0.15:
            return ["L", rng.choice([True, False])]     # equal to 1 / 0 across types, but a different bound
        vals = rng.sample([0, 1, 2, 3, 4, 1000], k)
        return ["L", *vals]
    if r < 0.5:
        return ["L", *rng.sample(["a", "ab", "b"], rng.choice([1, 2]))]
    bound = rng.choice(["int", "int", "object", "MyInt", "str", rng.choice(pool)])
    preds = {"int": ["ge3", "lt3", "even", "odd", "pos"], "MyInt": ["even", "ge3", "odd"],
             "object": ["truthy", "falsy", "ge3", "even"], "str": ["startsA", "short", "truthy"]}
    pred = rng.choice(preds.get(bound, ["always", "never", "truthy"]))
    return ["D", bound, pred]


def gen_program(rng, *, npos=None, nmeth=(2, 7), dep=0.0, kinds=("leaf",), kw=0.0, hier=None,
                prio=(0, 0, 0, 1, -1), repeat=0.15, other_arity=0.1, extras=("MyInt", "int"), catchall=0.4, p_strict=0.15):
    hier = hier if hier is not None else gen_hierarchy(rng, rng.randint(2, 5), attrs=False)
    pool = [s["name"] for s in hier] + ["object"] + list(extras)
    npos = npos or rng.choice([1, 1, 2, 2, 3])
    methods = []
    for i in range(rng.randint(*nmeth)):
        if methods and rng.random() < repeat:
            m = dict(rng.choice(methods), mid=i)
            m["kind"] = rng.choice(kinds)
            # the redefinition may add, change or drop a return annotation: it is the same signature all the same
            m["ret"] = ["int", "str", None][i % 3]
        else:
            n = npos
            if rng.random() < other_arity:
                n = max(1, npos + rng.choice([-1, 1]))
            pos = []
            for j in range(n):
                t = gen_dep_tx(rng, pool) if rng.random() < dep else rng.choice(pool)
                pos.append({"n": f"a{j}", "t": t})
            kws = []
            if rng.random() < kw:
                for k in rng.sample(["k1", "k2"], rng.choice([1, 1, 2])):
                    kws.append({"n": k, "t": rng.choice(pool), "req": rng.random() < 0.6})
                kws.sort(key=lambda k: k["n"])
            m = {"mid": i, "pos": pos, "kw": kws, "prio": rng.choice(prio), "kind": rng.choice(kinds)}
        if m["kind"] == "fnext" and (m.get("kw") or len(m["pos"]) != npos):
            m["kind"] = "next"
        methods.append(m)
    if rng.random() < catchall:
        methods.append({"mid": len(methods), "pos": [{"n": f"a{j}", "t": "object"} for j in range(npos)], "kw": [],
                        "prio": rng.choice([0, 0, -1]), "kind": "leaf"})
    strict_first(rng, methods, p_strict)
    return {"hier": hier, "methods": methods, "npos": npos}


def strict_first(rng, methods, p=0.15):
    """With probability p make the first position *strictly positional* - positional-only, or named differently by
    different methods - while later positions stay ordinary: the generated entry point then assembles its lookup
    key from two separate groups of parameters.  (Methods with fewer than two positions are left alone for the
    differing-names variant, which would otherwise change which positions are keyword-addressable for delegation
    bodies; delegating bodies always pass positionals positionally, so they are unaffected.)"""
    if rng.random() >= p or not methods:
        return None
    mode = rng.choice(["posonly", "names"])
    for i, m in enumerate(methods):
        if not m["pos"]:
            continue
        first = dict(m["pos"][0])
        if mode == "posonly":
            first["po"] = True
        else:
            first["n"] = f"a0{'xy'[i % 2]}"
        m["pos"] = [first] + m["pos"][1:]
    return mode


class CallGen:
    """Call generator for one program spec: most calls are aimed at one method's parameter types
    so that they are applicable to something."""

    def __init__(self, spec, values=None):
        self.spec = spec
        self.values = values or values_for(spec["hier"])
        self.env = T.Env(spec["hier"])
        self.cache = {}
        self.arities = sorted({len(m["pos"]) for m in spec["methods"]})
        self.used_kw = sorted({k["n"] for m in spec["methods"] for k in m.get("kw", [])})

    def accepting(self, t):
        key = T.tname(t) if t is not None else "object"
        if key not in self.cache:
            self.cache[key] = [v for v in self.values
                               if t is None or T.accepts(t, self.env, T.value(v, self.env)) is True]
        return self.cache[key]

    def args(self, rng, n, p_guided=0.75):
        ms = [m for m in self.spec["methods"] if len(m["pos"]) >= n]
        if ms and rng.random() < p_guided:
            m = rng.choice(ms)
            out = []
            for j in range(n):
                acc = self.accepting(m["pos"][j].get("t"))
                out.append(rng.choice(acc) if acc and rng.random() < 0.9 else rng.choice(self.values))
            return out
        return [rng.choice(self.values) for _ in range(n)]

    def call(self, rng, p_kw=0.3):
        spec = self.spec
        n = spec["npos"] if rng.random() < 0.85 else rng.choice(self.arities)
        call = {"pos": self.args(rng, n), "kw": {},
                "alt": self.args(rng, max(self.arities + [spec["npos"]]))}
        if self.used_kw and rng.random() < p_kw:
            with_kw = [m for m in spec["methods"] if m.get("kw")]
            if with_kw and rng.random() < 0.7:
                # aim the whole call at one method that declares keyword-only parameters
                m = rng.choice(with_kw)
                if len(m["pos"]) >= 1:
                    k = rng.randint(sum(1 for p in m["pos"] if not p.get("opt")), len(m["pos"]))
                    call["pos"] = [rng.choice(self.accepting(p.get("t")) or self.values) for p in m["pos"][:k]]
                for kw in m["kw"]:
                    if kw.get("req") or rng.random() < 0.6:
                        acc = self.accepting(kw.get("t"))
                        call["kw"][kw["n"]] = rng.choice(acc) if acc and rng.random() < 0.8 else rng.choice(self.values)
            else:
                for k in rng.sample(self.used_kw, rng.randint(1, len(self.used_kw))):
                    call["kw"][k] = rng.choice(self.values)
        return call


def gen_call(rng, spec, values=None, p_kw=0.3):
    return CallGen(spec, values).call(rng, p_kw)


# --------------------------------------------------------------------------- wide annotation grammar
WIDE_VALUES = VALUE_POOL + [["t", ["v", 1]], ["t", ["v", "a"]], ["t", ["mi", 2]], ["t"], ["t", ["v", 1], ["v", "a"]],
                            ["l", ["v", 1]], ["l", ["v", "a"]], ["l"], ["d"], ["d", [["v", "k"], ["v", 1]]],
                            ["d", [["v", "a"], ["v", "b"]]], ["v", "abc"], ["v", "xa"], ["v", -3],
                            # tuples *inside* tuples / lists, of the right and of the wrong length
                            ["t", ["t", ["v", 1], ["v", 2]], ["v", "a"]], ["t", ["t", ["v", 1], ["v", 2], ["v", 3]], ["v", "a"]],
                            ["t", ["t", ["v", 1]], ["v", "a"]], ["t", ["t"], ["v", "a"]], ["t", ["t", ["v", 1], ["v", 2]]],
                            ["l", ["t", ["v", 1], ["v", 2]]], ["l", ["t", ["v", 1], ["v", 2], ["v", 3]]], ["l", ["t", ["v", 1]]]]


def gen_wide_tx(rng, classes, depth=0):
    """annotation from the whole supported grammar (C01 / C10 / C11 workloads)"""
    atoms = classes + ["object", "int", "str", "MyInt", "bool"]
    r = rng.random()
    if depth >= 2 or r < 0.34:
        return rng.choice(atoms)
    if r < 0.44:
        a, b = gen_wide_tx(rng, classes, depth + 1), gen_wide_tx(rng, classes, depth + 1)
        return ["U", a, b] if T.tname(a) != T.tname(b) else a
    if r < 0.50:
        # intersections: members that need no normalisation of their own (see tx.ann)
        a = rng.choice(atoms)
        b = rng.choice([rng.choice(atoms), ["H", "bit_length"], ["D", "int", "even"], ["D", "object", "truthy"],
                        ["S", "int"], ["X", rng.choice(classes + ["int"])]])
        return ["I", a, b] if T.tname(a) != T.tname(b) else a
    if r < 0.55:
        return ["X", rng.choice(classes + ["int", "MyInt"])]
    if r < 0.60:
        return ["S", rng.choice(classes + ["int", "object"])]
    if r < 0.70:
        return ["L", *rng.sample([0, 1, 2, 3], rng.choice([1, 1, 2]))] if rng.random() < 0.8 else ["L", "a", 0]
    if r < 0.82:
        return gen_dep_tx(rng, classes)
    if r < 0.85:
        return ["T", gen_wide_tx(rng, classes, depth + 1)] if rng.random() < 0.7 else \
            ["T", gen_wide_tx(rng, classes, depth + 1), gen_wide_tx(rng, classes, depth + 1)]
    if r < 0.88:
        # a tuple type that is not the outermost annotation
        inner = ["T", "int", "int"] if rng.random() < 0.7 else ["T", "int"]
        return rng.choice([["T", inner, "str"], ["Ls", inner], ["T", inner], ["U", ["T", inner, "str"], "str"]])
    if r < 0.90:
        return [rng.choice(["Ls", "Sq"]), rng.choice(["int", "str", "MyInt"])]
    if r < 0.92:
        # a condition whose bound is itself value-dependent (list[int], tuple[int, str], Literal[...])
        b = rng.choice([["Ls", "int"], ["Ls", "str"], ["T", "int", "str"], ["Sq", "int"], ["L", 1, 2, 3],
                        # ... or a combination that has such members
                        ["U", ["Ls", "int"], "str"], ["U", ["T", "int", "str"], ["Ls", "str"]], ["U", ["L", 1, 2], "str"],
                        ["U", ["Ls", "int"], "str"]])
        return ["D", b, rng.choice(["truthy", "always", "falsy"])]
    if r < 0.95:
        return rng.choice([["SW", "a"], ["EW", "a"], ["Rx", "^a"], ["HK", "k"]])
    if r < 0.98:
        return ["H", rng.choice(["bit_length", "fly", "__len__"])]
    if depth == 0:
        return ["Ty", rng.choice(classes + ["int"])]
    return rng.choice(atoms)
