"""Generators: hierarchies, type expressions, values.  Everything is a function of the
``random.Random`` handed in; nothing iterates a set or depends on hash()."""
import importlib.abc
import importlib.machinery
import itertools
import sys

from . import tx as T


# --------------------------------------------------------------------------- hierarchies
def gen_hierarchy(rng, n, attrs=True, p_multi=0.35, prefix="K"):
    """Random class DAG spec, C3-linearisable by construction (checked by building it)."""
    specs, built = [], {}
    for i in range(n):
        name = f"{prefix}{i}"
        for _ in range(12):
            k = 0 if not specs else rng.choice([0, 1, 1, 1, 2, 2, 3] if rng.random() < p_multi + 0.3 else [0, 1, 1])
            k = min(k, len(specs))
            bases = rng.sample([s["name"] for s in specs], k)
            bases = [b for b in bases
                     if not any(o != b and issubclass(built[o], built[b]) for o in bases)]
            try:
                c = type(name, tuple(built[b] for b in bases) or (object,), {})
            except TypeError:
                continue
            built[name] = c
            spec = {"name": name, "bases": bases}
            if attrs:
                if rng.random() < 0.25:
                    spec["fly"] = True
                if rng.random() < 0.2:
                    spec["hooked"] = True
                if rng.random() < 0.2:
                    spec["meth"] = True
                if rng.random() < 0.15:
                    spec["shape"] = True
            specs.append(spec)
            break
    return specs


def all_hierarchies(n):
    """Every creation-ordered DAG on n classes (each class picks a subset of the earlier ones as
    bases, antichain, C3-linearisable)."""
    def rec(i, specs, built):
        if i == n:
            yield [dict(s) for s in specs]
            return
        names = [s["name"] for s in specs]
        for k in range(0, len(names) + 1):
            for bases in itertools.permutations(names, k):
                if any(o != b and issubclass(built[o], built[b]) for o in bases for b in bases):
                    continue
                try:
                    c = type(f"K{i}", tuple(built[b] for b in bases) or (object,), {})
                except TypeError:
                    continue
                built[f"K{i}"] = c
                specs.append({"name": f"K{i}", "bases": list(bases)})
                yield from rec(i + 1, specs, built)
                specs.pop()
                del built[f"K{i}"]
    yield from rec(0, [], {})


def subclass_relation(hier):
    """Canonical form of the subclass relation of a hierarchy spec (for de-duplication)."""
    env = T.Env(hier)
    names = [s["name"] for s in hier]
    return tuple(tuple(issubclass(env.cls(a), env.cls(b)) for b in names) for a in names)


# --------------------------------------------------------------------------- synthetic modules
class _SynthFinder(importlib.abc.MetaPathFinder, importlib.abc.Loader):
    """Modules named vfdef_<n> come into existence only when imported (for Deferred[...])."""

    PREFIX = "vfdef_"

    def find_spec(self, name, path, target=None):
        if name.startswith(self.PREFIX):
            return importlib.machinery.ModuleSpec(name, self)
        return None

    def create_module(self, spec):
        return None

    def exec_module(self, module):
        ns = module.__dict__
        exec("class Thing:\n    pass\nclass Sub(Thing):\n    pass\nclass Other:\n    pass\n", ns)


_finder = _SynthFinder()
if not any(isinstance(f, _SynthFinder) for f in sys.meta_path):
    sys.meta_path.append(_finder)

_synth_counter = itertools.count()


def fresh_deferred_module(tag=""):
    return f"vfdef_{tag}{next(_synth_counter)}"


# --------------------------------------------------------------------------- type expressions
def class_atoms(hier, builtins=("object", "int", "bool", "str"), extras=("HasFly", "Shape", "Hook", "MyInt")):
    return [s["name"] for s in hier] + list(builtins) + list(extras)


def gen_static_tx(rng, atoms, depth, heads=("U", "I", "X", "S", "H", "CC")):
    """Random non-value-dependent type expression."""
    if depth == 0 or rng.random() < 0.25:
        return rng.choice(atoms)
    h = rng.choice(heads)
    if h in ("U", "I"):
        k = rng.choice([2, 2, 3])
        ms = []
        for _ in range(k):
            m = gen_static_tx(rng, atoms, depth - 1, heads)
            if m not in ms:
                ms.append(m)
        if len(ms) < 2:
            return ms[0]
        return [h, *ms]
    if h in ("X", "S"):
        return [h, rng.choice([a for a in atoms if a not in ("HasFly",)])]
    if h == "H":
        return ["H", rng.choice(["fly", "meth", "__len__", "hooked", "bit_length"])]
    if h == "CC":
        return ["CC", rng.choice(sorted(T.CLASS_PREDS))]
    return rng.choice(atoms)
