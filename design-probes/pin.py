import ovld.typemap as tm, ovld.mro as mro
_orig_sort_types = mro.sort_types
def pinned_sort_types(cls, avail):
    return _orig_sort_types(cls, sorted(avail, key=lambda t: str(t)))
tm.sort_types = pinned_sort_types
def sk(self): return (self.priority, sum(self.specificity), self.tiebreak, getattr(self.handler, "__name__", str(self.handler)))
tm.Candidate.sort_key = sk
