import sys, random, collections, itertools, linecache
import pin
from ovld import OvldBase, OvldMC, extend_super, ovld, recurse, call_next
T = ["int", "str", "float", "bytes", "list"]
VAL = {"int": 1, "str": "s", "float": 2.5, "bytes": b"b", "list": [1, "s"]}
cnt = itertools.count()
def run(seed):
    rng = random.Random(seed)
    classes = []   # dict(name, bases(list idx), defs: list of (mid, type, ext)), table
    src_all = []
    ns = {"OvldBase": OvldBase, "OvldMC": OvldMC, "extend_super": extend_super, "ovld": ovld, "recurse": recurse, "call_next": call_next}
    mids = itertools.count(); alarms = []; snapshots = {}
    def table(ci):
        c = classes[ci]
        if c["defs"]:
            tab = {}
            if c["defs"][0][2]:    # extend_super on first def
                for b in c["bases"]:
                    bt = table(b)
                    if bt == "UNSPEC": return "UNSPEC"
                    if bt is not None: tab.update(bt)
            for mid, t, ext in c["defs"]: tab[t] = mid
            return tab
        # no own defs: python MRO lookup -> first base (in MRO) having it
        if len([b for b in c["bases"] if table(b) is not None]) > 1: return "UNSPEC"
        for b in c["bases"]:
            bt = table(b)
            if bt is not None: return bt
        return None
    def plain_of(ci):
        c = classes[ci]
        if c["defs"]:
            if len(c["defs"]) == 1 and not c["defs"][0][2]: return c["defs"][0]
            return None
        live = [b for b in c["bases"] if table(b) is not None]
        if len(live) == 1: return plain_of(live[0])
        return None
    def expected(ci, tname):
        p = plain_of(ci)
        if p is not None:
            return "UNSPEC" if p[1] == "list" else ("ran", ("m", p[0], classes[ci]["name"]))
        tab = table(ci)
        if tab == "UNSPEC" or (isinstance(tab, dict) and "UNSPEC" in tab.values()): return "UNSPEC"
        if tab is None: return ("noattr",)
        if tname == "list":
            if "list" not in tab: return ("none",)
            inner = [expected(ci, "int"), expected(ci, "str")]
            if any(x == ("none",) for x in inner): return ("none",)
            return ("ran", [f"L{tab['list']}"] + [x[1] for x in inner])
        return ("ran", ("m", tab[tname], classes[ci]["name"])) if tname in tab else ("none",)
    def observe(ci, tname):
        cls = ns[classes[ci]["name"]]; inst = cls()
        if not hasattr(inst, "f"): return ("noattr",)
        try: return ("ran", inst.f(VAL[tname]))
        except TypeError as e: return ("none",) if "No method" in str(e) else ("typeerror", str(e)[:70])
        except Exception as e: return ("exc", type(e).__name__, str(e)[:70])
    for i in range(rng.randint(2, 6)):
        name = f"K{len(classes)}"
        nb = rng.choice([0, 1, 1, 1, 2]) if classes else 0
        bases = sorted(rng.sample(range(len(classes)), min(nb, len(classes))), reverse=True)
        # drop bases that are ancestors of other chosen bases
        def ancs(ci): 
            r = set()
            for b in classes[ci]["bases"]: r |= {b} | ancs(b)
            return r
        bases = [b for b in bases if not any(b in ancs(o) for o in bases if o != b)]
        is_ovld_cls = True
        basestr = ", ".join(f"K{b}" for b in bases) if bases else ("OvldBase" if is_ovld_cls else "")
        any_ovld_base = any(classes[b]["ovldcls"] for b in bases)
        ovldcls = (is_ovld_cls and not bases) or any_ovld_base
        if bases and not any_ovld_base: continue   # plain-only hierarchy: skip
        ndefs = rng.choice([0, 1, 1, 2, 3]); defs = []; body = []
        tys = rng.sample(T, ndefs)
        for j, t in enumerate(tys):
            mid = next(mids); ext = (j == 0 and bool(bases) and rng.random() < 0.7)
            if ext: body.append("    @extend_super")
            if t == "list": body.append(f"    def f(self, x: list):\n        return ['L{mid}'] + [recurse(e) for e in x]")
            else: body.append(f"    def f(self, x: {t}):\n        return ('m', {mid}, type(self).__name__)")
            defs.append((mid, t, ext))
        if not body: body = ["    pass"]
        src = f"class {name}({basestr}):\n" + "\n".join(body) + "\n"
        fname = f"<vc:{next(cnt)}>"; linecache.cache[fname] = (len(src), None, src.splitlines(True), fname)
        try: exec(compile(src, fname, "exec"), ns)
        except Exception as e:
            alarms.append(("class-creation", src, type(e).__name__, str(e)[:80])); break
        classes.append(dict(name=name, bases=bases, defs=defs, ovldcls=ovldcls)); src_all.append(src)
        # bases untouched + own behaviour
        for ci in range(len(classes)):
            for t in T:
                exp = expected(ci, t)
                if exp == "UNSPEC": continue
                got = observe(ci, t)
                if got[0] == "ran" and exp[0] == "ran":
                    # class name of self differs per instance: normalise expected name
                    pass
                if got != exp: alarms.append((classes[ci]["name"], t, got, exp))
        if alarms: break
    return src_all, alarms
stats = collections.Counter(); exs = []
for seed in range(int(sys.argv[1])):
    src, alarms = run(seed)
    stats["progs"] += 1; stats["alarm_progs"] += bool(alarms)
    if alarms and len(exs) < 6: exs.append((seed, "".join(src), alarms[:2]))
print(stats)
for e in exs: print(e[0]); print(e[1]); print(e[2])
