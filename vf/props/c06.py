"""C06 - resolution is deterministic and ignores irrelevant context.

Monitor (metamorphic): the outcome vector of one (method set, calls) pair is taken under many
*configurations* that the property says must not matter, and all vectors must be equal:
  (1) permutations of the registration order of distinct signatures;
  (2) iteration order of the library's internal collections, forced through the OVLD_VERIF order
      hooks (types offered to the sorter, types of a layer, candidate list): identity / reverse /
      seeded shuffles - this is the one check that does *not* pin those orders;
  (3) the method set plus 1-3 methods that are not applicable to the probed calls (other arity, other
      required keyword, disjoint class - including near misses declared on subclasses of existing
      parameter types);
  (4)-(6) separate processes: PYTHONHASHSEED in {0, 1, 2, random}, classes created after a seeded
      amount of garbage and in another order (memory addresses), and a plain re-run - unpinned.
Differences are attributed to the known F1 family (F1: irrelevant methods shift layer indices; F16: the
tie order of the candidate list decides the grouping) only when the frozen transcription predicts
**both** vectors exactly under the respective configuration, and to F8 only when the real order
relation is observed to be asymmetric on a pair of registered types at a dispatched position.
"""
import itertools
import json
import os
import random
import subprocess
import sys

from .. import boot
from .. import frozen, gen, tx as T
from ..observe import canonical_permuter, _cand_key, _type_key
from ..prog import Program

ID = "C06"
LEVEL = "exploration"
RULE = ("cases = random programs in three flavours (static; overlapping Union / Intersection members; Literal / "
        "Dependent) x 12-30 calls x configurations: <= 6 registration orders, 6 forced iteration orders, 3 sets of "
        "added inapplicable (near-miss) methods; plus 128 (thorough: 640) programs re-run unpinned in 4 sub-processes "
        "(hash seeds 0/1/2/random, garbage + class-creation-order perturbation, plain re-run); distinct_nontrivial = "
        "distinct programs that have >= 2 applicable methods for some call and were run under >= 8 configurations")
ASSUMPTIONS = [
    "'all hash seeds' and 'all memory layouts' are sampled, not enumerated",
    "identical signatures keep their relative registration order under permutation (latest-wins is part of the semantics)",
    "a method is 'not applicable to the call' by arity, by a required keyword the call does not supply, or by a class none of the probed arguments is an instance of",
]
REPORT_COUNTERS = ["programs", "configs_run", "vector_comparisons", "cfg_registration_order", "cfg_iteration_order",
                   "cfg_added_inapplicable", "cfg_removed_bystander", "cfg_subprocess", "programs_multi_applicable", "subprocess_programs",
                   "asymmetric_pairs_seen", "distinct_permuter_orders", "tie_order_sensitive_programs"]


def plan(tier):
    n = 960 if tier == "quick" else 24000
    return {"cases": n, "params": {"sub": 128 if tier == "quick" else 640}, "timeout_s": 1500 if tier == "quick" else 7200,
            "min": {"configs_run": 5_000, "cfg_iteration_order": 1_500, "cfg_registration_order": 1_000,
                    "cfg_added_inapplicable": 1_000, "cfg_removed_bystander": 1_000, "cfg_subprocess": 200, "programs_multi_applicable": 200}}


# ------------------------------------------------------------------------------------------- generation
TIE_POOL0 = [["L", 0], ["L", 1], ["L", 2], ["L", 1, 2], ["D", "int", "even"], ["D", "int", "ge3"], "int", "object", "MyInt"]
TIE_POOL1 = ["MyInt", "int", "object", ["L", 2], ["L", 1], ["D", "int", "odd"]]
TIE_VALUES = [["v", 0], ["v", 1], ["v", 2], ["v", 3], ["v", 4], ["mi", 1], ["mi", 2], ["mi", 4]]


def _gen_tuple_ties(rng):
    """overlapping tuple[...] types whose element types cross (tuple[int, object] / tuple[object, int]): no one is more
    specific, a value matching several is ambiguous whatever the order of anything"""
    elems = ["int", "object", "str", "MyInt", "bool"]
    methods, seen = [], set()
    for i in range(rng.randint(2, 4)):
        t = ["T", rng.choice(elems), rng.choice(elems)]
        if T.tname(t) in seen:
            continue
        seen.add(T.tname(t))
        methods.append({"mid": i, "pos": [{"n": "a0", "t": t}], "kw": [], "prio": 0, "kind": "leaf"})
    methods.append({"mid": 9, "pos": [{"n": "a0", "t": "object"}], "kw": [], "prio": -1, "kind": "leaf"})
    vals = [["t", ["v", 1], ["v", 2]], ["t", ["v", 1], ["v", "a"]], ["t", ["v", "a"], ["v", 1]], ["t", ["mi", 1], ["v", True]],
            ["t", ["v", True], ["v", True]], ["t", ["v", "a"], ["v", "b"]], ["t", ["v", 1]], ["v", 1]]
    spec = {"hier": [], "methods": methods, "npos": 1, "flavour": "tuples", "calls": [{"pos": [v], "kw": {}} for v in vals],
            "extras": [{"mid": 90, "pos": [{"n": "a0", "t": ["T", "int"]}, {"n": "a1", "t": "int"}], "kw": [], "prio": 0, "kind": "leaf"}],
            "perm_seeds": [rng.randrange(1 << 30) for _ in range(4)]}
    return spec


def _gen_ties(rng):
    """two positions over a tiny pool: many candidates share their specificity sum, so the order of
    ties in the candidate list decides the grouping (the region of F16)"""
    methods, seen = [], set()
    for i in range(rng.randint(3, 6)):
        pos = [{"n": "a0", "t": rng.choice(TIE_POOL0)}, {"n": "a1", "t": rng.choice(TIE_POOL1)}]
        k = (T.tname(pos[0]["t"]), T.tname(pos[1]["t"]))
        if k in seen:
            continue
        seen.add(k)
        methods.append({"mid": i, "pos": pos, "kw": [], "prio": rng.choice([0, 0, 0, 0, 1]), "kind": "leaf"})
    spec = {"hier": [], "methods": methods, "npos": 2, "flavour": "ties"}
    spec["calls"] = [{"pos": [a, b], "kw": {}} for a in TIE_VALUES for b in TIE_VALUES]
    spec["extras"] = [{"mid": 90, "pos": [{"n": "a0", "t": "MyInt"}], "kw": [], "prio": 0, "kind": "leaf"},
                      {"mid": 91, "pos": [{"n": "a0", "t": ["L", 1]}, {"n": "a1", "t": "MyInt"}, {"n": "a2", "t": "int"}],
                       "kw": [], "prio": 0, "kind": "leaf"}]
    spec["perm_seeds"] = [rng.randrange(1 << 30) for _ in range(4)]
    return spec


def _gen_keyed(rng):
    """methods of one rank keyed by disjoint Literals on the first position (3-5 of them; some with a second value
    condition), a catch-all, and as *inapplicable additions* further Literal methods whose keys no call uses - they
    may push the group over the size at which the library switches its dispatch strategy"""
    pool = [0, 1, 2, 3, 4, 7, 1000] if rng.random() < 0.6 else ["a", "ab", "b", "c", "d", "e", "f"]
    keys = rng.sample(pool, 7)
    nk = rng.choice([3, 3, 4, 5])
    seconds = [["L", 0], ["L", "a"], ["L", 1, 2], ["D", "int", "even"], ["D", "object", "truthy"], ["D", "int", "ge3"]]

    def keyed(mid, k):
        if rng.random() < 0.45:
            pos = [["L", k], rng.choice(seconds), "object"]
        else:
            pos = [["L", k], "object", rng.choice(["int", "MyInt", "int", "object"])]
        return {"mid": mid, "pos": [{"n": f"a{j}", "t": t} for j, t in enumerate(pos)], "kw": [], "prio": 0, "kind": "leaf"}
    methods = [keyed(i, k) for i, k in enumerate(keys[:nk])]
    methods.append({"mid": nk, "pos": [{"n": f"a{j}", "t": "object"} for j in range(3)], "kw": [], "prio": -1, "kind": "leaf"})
    extras = [keyed(90 + i, k) for i, k in enumerate(keys[5:7])]
    firsts = [["v", k] for k in keys[:nk]] + [["v", 5], ["v", "zz"]]
    mids = [["v", 0], ["v", 1], ["v", 2], ["v", 3], ["v", 4], ["v", "a"], ["v", "b"], ["v", ""], ["v", None]]
    lasts = [["v", 1], ["mi", 2], ["v", "s"], ["v", 2.5]]
    calls = [{"pos": [rng.choice(firsts), rng.choice(mids), rng.choice(lasts)], "kw": {}} for _ in range(40)]
    return {"hier": [], "methods": methods, "npos": 3, "flavour": "keyed", "calls": calls, "extras": extras,
            "perm_seeds": [rng.randrange(1 << 30) for _ in range(4)]}


def _gen_wild(rng):
    """parametrised @dependent_check patterns with typing.Any wildcards on one bound (their order among each other is a
    user-level `<`, asked in whatever direction the sorter happens to compare them)"""
    from .c10 import _gen_wild as g
    spec = g(rng)
    for m in spec["methods"]:
        m["prio"] = 0
    spec.pop("wild", None)
    spec.pop("composite", None)
    n = len(spec["methods"][0]["pos"][0]["t"]) - 1 if spec["methods"][0]["pos"][0]["t"][0] == "W" else 2
    spec.update(flavour="wild", perm_seeds=[rng.randrange(1 << 30) for _ in range(4)],
                extras=[{"mid": 90, "pos": [{"n": f"a{j}", "t": ["W", *["*"] * n] if j == 0 else "object"}
                                            for j in range(spec["npos"] + 1)], "kw": [], "prio": 0, "kind": "leaf"}])
    return spec


def gen_case(rng, params, idx):
    if idx % 8 == 7:
        return _gen_keyed(rng)
    if idx % 16 == 5:
        return _gen_wild(rng)
    if idx % 16 == 3:
        return _gen_tuple_ties(rng)
    if idx % 4 == 3:
        return _gen_ties(rng)
    flavour = ["static", "union", "dep"][idx % 3]
    hier = gen.gen_hierarchy(rng, rng.randint(3, 6), attrs=(flavour == "static"), p_multi=0.5)
    names = [s["name"] for s in hier]
    pool = names + ["object"]
    if flavour == "static" and rng.random() < 0.5:
        # protocols / ABCs that are mutual (virtual) subclasses of each other or of object
        pool = pool + ["HasFly", "HasFly2", "Hashable"]
    npos = rng.choice([1, 2, 2])

    def gtype():
        r = rng.random()
        if flavour == "static" or r < 0.45:
            return rng.choice(pool)
        if flavour == "union":
            a, b = rng.sample(pool, 2)
            return [rng.choice(["U", "U", "U", "I"]), a, b]
        return gen.gen_dep_tx(rng, names)

    methods, seen = [], set()
    for i in range(rng.randint(2, 6)):
        pos = [{"n": f"a{j}", "t": gtype()} for j in range(npos)]
        prio = rng.choice([0, 0, 0, 1])
        k = (tuple(T.tname(p["t"]) for p in pos), prio)
        if k in seen and rng.random() < 0.7:
            continue
        seen.add(k)
        methods.append({"mid": i, "pos": pos, "kw": [], "prio": prio, "kind": "leaf"})
    if npos == 2 and rng.random() < 0.35:
        # a twin: the same types and priority as another method, but a distinct signature (last parameter optional)
        src = rng.choice(methods)
        if not any(p.get("opt") for p in src["pos"]):
            twin = {"mid": len(methods) + 10, "pos": [dict(p) for p in src["pos"]], "kw": [], "prio": src["prio"], "kind": "leaf"}
            twin["pos"][-1]["opt"] = True
            methods.append(twin)
    spec = {"hier": hier, "methods": methods, "npos": npos, "flavour": flavour}
    vals = gen.values_for(hier, builtin=(flavour == "dep"))
    cg = gen.CallGen(spec, vals)
    if npos == 1:
        calls = [{"pos": [v], "kw": {}} for v in vals]
    else:
        calls = [{"pos": cg.args(rng, npos), "kw": {}} for _ in range(30)]
    spec["calls"] = calls
    # inapplicable additions (near misses): other arity / required keyword / on subclasses of existing types
    extras = []
    for e in range(3):
        kind = rng.choice(["arity+", "arity-", "kw"])
        base = rng.choice(methods)
        pos = [{k: v for k, v in p.items() if k != "opt"} for p in base["pos"]]
        for p in pos:
            if isinstance(p["t"], str) and rng.random() < 0.7:
                subs = [n for n in names if n != p["t"]]
                if subs:
                    p["t"] = rng.choice(subs)
        kw = []
        if kind == "arity+":
            pos.append({"n": f"a{len(pos)}", "t": rng.choice(pool)})
        elif kind == "arity-" and len(pos) > 1:
            pos = pos[:-1]
        else:
            kw = [{"n": "zz", "t": rng.choice(pool), "req": True}]
        if len(pos) == npos and not kw:
            pos.append({"n": f"a{len(pos)}", "t": "object"})
        extras.append({"mid": 90 + e, "pos": pos, "kw": kw, "prio": rng.choice([0, 0, 1]), "kind": "leaf"})
    if flavour == "static" and rng.random() < 0.3:
        # classes as arguments, dispatched on their metaclass; the additions are type[...] methods that do not apply to
        # the classes passed (they change how the entry point looks arguments up at that position, nothing else)
        for m in methods:
            for p in m["pos"]:
                if rng.random() < 0.4:
                    p["t"] = rng.choice(["ABCMeta", "ABCMeta", "object"])
        cvals = [["c", "Shape"], ["c", "Hook"], ["c", "Hashable"], ["c", names[0]], ["c", "HasFly"], ["c", "HasFly"]]     # (a protocol class: its metaclass is a strict subclass of ABCMeta)
        spec["calls"] = calls + [{"pos": [rng.choice(cvals + vals) if j != k else rng.choice(cvals) for j in range(npos)], "kw": {}}
                                 for k in range(npos) for _ in range(8)]
        extras = extras + [{"mid": 95 + j, "pos": [{"n": f"a{i}", "t": (["Ty", rng.choice(["str", "int"])] if i == j else "object")}
                                                    for i in range(npos)], "kw": [], "prio": 0, "kind": "leaf"}
                           for j in range(npos)]
        spec["classes_as_arguments"] = True
        if rng.random() < 0.5:
            # a keyword-only type[...] parameter that every method requires, classes passed through it; the addition is
            # a method *without* that keyword (it cannot apply to a call that passes it, but it makes the keyword
            # optional for the entry point)
            kcls = rng.choice(names + ["int", "str"])
            for m in methods:
                m["kw"] = [{"n": "k", "t": rng.choice([["Ty", kcls], ["Ty", "object"], ["Ty", kcls]]), "req": True}]
            for c in spec["calls"]:
                c["kw"] = {"k": ["c", rng.choice([kcls, kcls, "object", names[-1]])]}
            extras = [e for e in extras if e["mid"] >= 95]
            for e in extras:
                e["kw"] = []
            spec["keyword_type_parameter"] = True
    spec["extras"] = extras
    spec["perm_seeds"] = [rng.randrange(1 << 30) for _ in range(4)]
    return spec


# ------------------------------------------------------------------------------------------- configurations
def _mk_permuter(mode, seed=0):
    """(permuter for the library hooks, key(mid) for the frozen model)"""
    if mode == "identity":
        return canonical_permuter, None
    if mode == "reverse":
        def perm(site, seq):
            return list(reversed(canonical_permuter(site, seq)))
        return perm, (lambda mid: -mid)
    a = 1 + 2 * (seed % 50)
    b = seed % 97

    def mkey(mid):
        return ((mid * a + b) % 101, mid)

    def perm(site, seq):
        base = canonical_permuter(site, seq)
        if site == "mro.candidates":
            return sorted(base, key=lambda c: mkey(_cand_key(c)[1] if isinstance(_cand_key(c)[1], int) else 0))
        r = random.Random(seed * 1000003 + len(base))
        base = list(base)
        r.shuffle(base)
        return base
    return perm, mkey


def _vector(spec, env, methods, permuter, tag="c06", remove=(), warm=False):
    boot._verif.install(permuter=permuter)
    prog = Program(dict(spec, methods=methods), env=env, tag=tag)
    if remove:
        # history: the bystanders were registered (and possibly used) and are unregistered again
        if warm:
            for call in spec["calls"][:3]:
                prog.call(call)
        for mid in remove:
            prog.ov.unregister(prog.fns[mid])
        prog.bind()
    out = []
    for call in spec["calls"]:
        o = prog.call(call)
        if o[0] == "ran":
            out.append(("win", o[2][1]) if isinstance(o[2], tuple) else ("weird",))
        elif o[0] in ("none", "bind"):
            out.append(("none",))
        elif o[0] == "amb":
            out.append(("amb",))
        else:
            out.append((o[0], str(o[1])[:40]))
    prog.close()
    return out


def _frozen_vector(spec, env, methods, mkey):
    frozen.CAND_KEY = mkey
    try:
        return [frozen.outcome(methods, call, env) for call in spec["calls"]]
    finally:
        frozen.CAND_KEY = None


def _reg_orders(methods, rng, limit=6):
    """permutations that keep the relative order of identical signatures"""
    from ..refmodel import sig_identical
    groups = []
    for m in methods:
        for g in groups:
            if g[0].get("prio", 0) == m.get("prio", 0) and sig_identical(g[0], m):
                g.append(m)
                break
        else:
            groups.append([m])
    if len(groups) <= 3:
        perms = list(itertools.permutations(range(len(groups))))
    else:
        perms = [tuple(range(len(groups))), tuple(reversed(range(len(groups))))]
        while len(perms) < limit:
            p = list(range(len(groups)))
            rng.shuffle(p)
            perms.append(tuple(p))
    out = []
    for p in perms[:limit]:
        # interleave: emit groups in permuted order but keep identical signatures in their own order
        out.append([m for gi in p for m in groups[gi]])
    return out


def _asymmetric_pairs(spec, env):
    """pairs of registered types at one position on which the *real* order relation is not mirror
    symmetric (finding F8) - read from the library, used only as a classifier precondition"""
    from graphlib import CycleError, TopologicalSorter
    from ovld.mro import Order, typeorder
    from ovld.types import normalize_type
    from ovld.dependent import DependentType
    n = 0
    for j in range(spec["npos"] + 1):
        ts = []
        for m in spec["methods"] + spec["extras"]:
            if j < len(m["pos"]):
                t = normalize_type(T.ann(m["pos"][j]["t"], env), None)
                if not any(t is x for x in ts):
                    ts.append(t)
        deps = {i: set() for i in range(len(ts))}
        for (i, a), (k, b) in itertools.combinations(enumerate(ts), 2):
            try:
                o1, o2 = typeorder(a, b), typeorder(b, a)
            except Exception:  # noqa: BLE001
                n += 1
                continue
            # F8 is two *different* rules disagreeing.  Two dependent types of one class on one bound are compared by one
            # and the same rule in both directions: an asymmetry there is not F8 and must not be excused by it
            same_rule = (type(a) is type(b) and isinstance(a, DependentType) and a.bound == b.bound)
            if o1 is not o2.opposite() and hasattr(a, "__type_order__") and hasattr(b, "__type_order__") and not same_rule:
                n += 1          # not mirror-symmetric, and both operands carry their own ordering rule (F8's mechanism)
            if o1 is Order.LESS:
                deps[k].add(i)
            elif o1 is Order.MORE:
                deps[i].add(k)
        try:
            TopologicalSorter(deps).prepare()
        except CycleError:
            if any(hasattr(t, "__type_order__") for t in ts):
                n += 1          # symmetric pairwise but cyclic: not a partial order
    return n


def _applicable_extra(extra, spec, env):
    from .. import refmodel as R
    return any(R.applicable(extra, c, env) is not False for c in spec["calls"])


def check_case(spec, res):
    env = T.Env(spec["hier"])
    methods = spec["methods"]
    rng = random.Random(spec["perm_seeds"][0])
    res.count("programs")
    if spec.get("classes_as_arguments"):
        res.count("programs_classes_as_arguments")
    res.sample({k: spec[k] for k in ("hier", "methods", "npos", "flavour", "extras")} | {"calls": spec["calls"][:3]},
               spec["flavour"])
    try:
        base = _vector(spec, env, methods, canonical_permuter)
    except Exception as e:  # noqa: BLE001
        res.count("unbuildable_" + type(e).__name__)
        boot._verif.install(permuter=None)
        return
    fro_base = _frozen_vector(spec, env, methods, None)
    asym = _asymmetric_pairs(spec, env)
    res.count("asymmetric_pairs_seen", asym)
    from .. import refmodel as R
    if any(sum(1 for m in methods if R.applicable(m, c, env)) >= 2 for c in spec["calls"]):
        res.count("programs_multi_applicable")
        multi = True
    else:
        multi = False
    nconf = 1

    def levels(ms):
        """specificity vectors the library assigned to the candidates of each call (mechanism read-out for
        the F1 classifier: did an inapplicable method shift the layer indices of the applicable ones?)"""
        boot._verif.install(permuter=canonical_permuter)
        prog = Program(dict(spec, methods=ms), env=env, tag="c06l")
        from ..methods import mid_of_handler
        out = []
        for call in spec["calls"]:
            pos, _, _ = prog.args(call)
            try:
                prog.ov.ensure_compiled()
                grp = prog.ov.map.mro(tuple(type(a) for a in pos))
                out.append({mid_of_handler(c.handler): tuple(c.specificity) for g in grp for c in g})
            except Exception:  # noqa: BLE001
                out.append(None)
        prog.close()
        return out

    base_levels = None

    def compare(label, vec, fro_vec, detail, ms=None):
        nonlocal nconf, base_levels
        nconf += 1
        res.count("configs_run")
        res.count("cfg_" + label)
        for i, (a, b) in enumerate(zip(base, vec)):
            res.ev()
            res.count("vector_comparisons")
            if a == b:
                continue
            finding = None
            fa, fb = fro_base[i], (fro_vec[i] if fro_vec else None)
            if fa is not None and fb is not None and tuple(fa) == a and tuple(fb) == b:
                finding = "F16" if label == "iteration_order" else "F1"
            elif asym:
                finding = "F8"
            elif label == "added_inapplicable" and ms is not None:
                # F1 mechanism: the added, inapplicable method changed the layer index of an applicable one
                if base_levels is None:
                    base_levels = levels(methods)
                lv = levels(ms)
                if base_levels[i] is not None and lv[i] is not None and \
                        any(lv[i].get(k) != v for k, v in base_levels[i].items()):
                    finding = "F1"
            res.violation("outcome-depends-on-" + label, [label, spec["flavour"], a[0], b[0]], spec,
                          observed={"config": detail, "call": spec["calls"][i], "canonical": a, "this_config": b},
                          acceptable="same outcome under every configuration", finding=finding)
            return

    try:
        # (1) registration order
        for order in _reg_orders(methods, rng)[1:]:
            vec = _vector(spec, env, order, canonical_permuter)
            compare("registration_order", vec, _frozen_vector(spec, env, order, None), [m["mid"] for m in order])
        # (2) iteration order
        orders = set()
        for mode, seed in [("reverse", 0)] + [("shuffle", s) for s in spec["perm_seeds"]] + [("shuffle", 7)]:
            perm, mkey = _mk_permuter(mode, seed)
            vec = _vector(spec, env, methods, perm)
            orders.add((mode, seed))
            compare("iteration_order", vec, _frozen_vector(spec, env, methods, mkey), [mode, seed])
        res.count("distinct_permuter_orders", len(orders))
        # (3) added inapplicable methods
        extras = [e for e in spec["extras"] if not _applicable_extra(e, spec, env)]
        for k in range(1, len(extras) + 1):
            ext = methods + extras[:k]
            try:
                vec = _vector(spec, env, ext, canonical_permuter)
            except TypeError:
                continue    # naming rules of the entry point reject this combination of signatures
            compare("added_inapplicable", vec, _frozen_vector(spec, env, ext, None), [e["mid"] for e in extras[:k]], ext)
        # (3b) bystanders (applicable or not) that were registered and unregistered again: same final set
        ex = spec["extras"]
        if ex:
            r2 = random.Random(spec["perm_seeds"][1])
            for trial in range(2):
                order = list(methods)
                for e in ex[: 1 + trial]:
                    order.insert(r2.randrange(len(order) + 1), e)
                if trial:
                    core = [m for m in order if m["mid"] < 90]
                    r2.shuffle(core)
                    it = iter(_reg_orders(methods, r2, limit=3)[-1])
                    order = [next(it) if m["mid"] < 90 else m for m in order]
                try:
                    vec = _vector(spec, env, order, canonical_permuter, remove=[e["mid"] for e in ex[: 1 + trial]],
                                  warm=bool(trial))
                except TypeError:
                    continue
                kept = [m for m in order if m["mid"] < 90]
                compare("removed_bystander", vec, _frozen_vector(spec, env, kept, None), [m["mid"] for m in order])
    finally:
        boot._verif.install(permuter=None)
    # how many programs are sensitive to the tie order at all (evidence; F16's reach)
    if spec["flavour"] in ("ties", "dep") and len(methods) <= 6:
        c0 = spec["calls"][:: max(1, len(spec["calls"]) // 6)]
        if any(len(_frozen_possible(spec, env, c, limit=12) or ()) > 1 for c in c0):
            res.count("tie_order_sensitive_programs")
    if multi and nconf >= 8:
        res.nontrivial([spec["flavour"], [[T.tname(p["t"]) for p in m["pos"]] + [m["prio"]] for m in methods]])


# ------------------------------------------------------------------------------------------- sub-process part
def teardown(res):
    """(4)-(6): re-run a batch of this shard's programs unpinned in separate processes."""
    batch = getattr(res, "_c06_batch", None)
    if not batch:
        return
    here = os.path.dirname(os.path.dirname(os.path.dirname(os.path.abspath(__file__))))
    payload = json.dumps(batch)
    runs = []
    for label, hs, garbage in (("hash0", "0", 0), ("hash1", "1", 1), ("hash2-rerun", "2", 0), ("hashrandom", "random", 2)):
        env = dict(os.environ, PYTHONHASHSEED=hs, VF_C06_GARBAGE=str(garbage))
        p = subprocess.run([sys.executable, "-m", "vf.props.c06", "--child"], input=payload, capture_output=True,
                           text=True, cwd=here, env=env, timeout=600)
        if p.returncode != 0:
            res.harness_errors.append({"where": "c06 child " + label, "tb": p.stderr[-800:]})
            return
        runs.append((label, json.loads(p.stdout)))
    for k, spec in enumerate(batch):
        env = T.Env(spec["hier"])
        res.count("subprocess_programs")
        vecs = [(label, [tuple(x) for x in r[k]]) for label, r in runs]
        asym = None
        for label, vec in vecs[1:]:
            res.count("cfg_subprocess")
            res.count("configs_run")
            for i, (a, b) in enumerate(zip(vecs[0][1], vec)):
                res.ev()
                res.count("vector_comparisons")
                if a == b:
                    continue
                # explained by the F1 family iff each observation is what the frozen transcription yields under
                # *some* candidate tie order
                poss = _frozen_possible(spec, env, spec["calls"][i])
                if asym is None:
                    asym = _asymmetric_pairs(dict(spec, extras=[]), env)
                finding = "F16" if poss is not None and a in poss and b in poss else ("F8" if asym else None)
                res.violation("outcome-depends-on-process", [spec["flavour"], a[0], b[0]], spec,
                              observed={"runs": [vecs[0][0], label], "call": spec["calls"][i], "first": a, "other": b},
                              acceptable="same outcome in every process", finding=finding)
                break


def _frozen_possible(spec, env, call, limit=None):
    mids = [m["mid"] for m in spec["methods"]]
    if len(mids) > 6:
        return None
    out = set()
    try:
        for perm in itertools.islice(itertools.permutations(mids), limit):
            rank = {m: i for i, m in enumerate(perm)}
            frozen.CAND_KEY = lambda mid: rank[mid]
            r = frozen.outcome(spec["methods"], call, env)
            if r is None:
                return None
            out.add(tuple(r))
    finally:
        frozen.CAND_KEY = None
    return out


_orig_check_case = check_case


def check_case(spec, res):  # noqa: F811
    batch = res.__dict__.setdefault("_c06_batch", [])
    limit = res.__dict__.setdefault("_c06_limit", None)
    if limit is None:
        limit = res._c06_limit = -(-plan(os.environ.get("VF_TIER", "quick"))["params"]["sub"] // int(os.environ.get("VF_NSHARDS", "16")))
    if len(batch) < limit and len(spec["methods"]) <= 6:
        batch.append({k: spec[k] for k in ("hier", "methods", "npos", "flavour", "calls")})
    _orig_check_case(spec, res)


def _child():
    """stdin: list of specs; stdout: list of outcome vectors.  No pinning: the library's own set
    iteration order applies.  VF_C06_GARBAGE perturbs allocation and class creation order."""
    batch = json.loads(sys.stdin.read())
    g = int(os.environ.get("VF_C06_GARBAGE", "0"))
    junk = [object() for _ in range(g * 50021)]
    out = []
    for k, spec in enumerate(batch):
        hier = spec["hier"]
        env = T.Env([])
        if g:
            junk.append([type(f"J{i}", (), {}) for i in range((k * 7 + g) % 13)])
        for s in hier:
            env.add_class(s)
        boot._verif.install(permuter=None)
        out.append(_vector(spec, env, spec["methods"], None, tag="c06c"))
    del junk
    sys.stdout.write(json.dumps(out))


if __name__ == "__main__":
    if sys.argv[1:] == ["--child"]:
        _child()
