"""How reliably is each kept seeded change reported?  For every /verif/seeded/<name>/ the check of the property the
change was written against is run at several seeds against a scratch copy of /repo/src with the patch applied.

    /venv/bin/python -m vf.seedsweep [--seeds 0,1,2] [--only C11,C19] [--par 4] > evidence/seed-sweep.txt

Nothing is applied to /repo; output of the checks goes to the scratch directory (VF_OUT).
"""
import concurrent.futures
import json
import os
import shutil
import subprocess
import sys
import tempfile

HERE = os.path.dirname(os.path.dirname(os.path.abspath(__file__)))


def one(name, prop, seeds, jobs):
    d = os.path.join(HERE, "seeded", name)
    tmp = tempfile.mkdtemp(prefix="ovld-sweep-")
    hits = []
    try:
        shutil.copytree("/repo/src", os.path.join(tmp, "src"))
        r = subprocess.run(["patch", "-p1", "-s", "-F0", "-i", os.path.join(d, "patch.diff")], cwd=tmp, capture_output=True, text=True)
        if r.returncode != 0:
            return name, prop, None, "patch does not apply"
        for s in seeds:
            env = dict(os.environ, OVLD_SRC=os.path.join(tmp, "src"), VF_OUT=tmp, VERIF_SEED=str(s), VERIF_JOBS=str(jobs))
            r = subprocess.run([os.path.join(HERE, "check"), prop, "quick"], env=env, capture_output=True, text=True)
            hits.append(r.returncode)
    finally:
        shutil.rmtree(tmp, ignore_errors=True)
    return name, prop, hits, ""


def main(argv):
    seeds = [0, 1, 2]
    only = None
    par = 4
    if "--seeds" in argv:
        seeds = [int(x) for x in argv[argv.index("--seeds") + 1].split(",")]
    if "--only" in argv:
        only = set(argv[argv.index("--only") + 1].split(","))
    if "--par" in argv:
        par = int(argv[argv.index("--par") + 1])
    jobs = max(2, 16 // par)
    todo = []
    for name in sorted(os.listdir(os.path.join(HERE, "seeded"))):
        mp = os.path.join(HERE, "seeded", name, "meta.json")
        if not os.path.exists(mp):
            continue
        prop = json.load(open(mp))["property"]
        if only and prop not in only and name not in only:
            continue
        todo.append((name, prop))
    head = subprocess.run(["git", "-C", "/repo", "rev-parse", "--short", "HEAD"], capture_output=True, text=True).stdout.strip()
    print(f"# seeded changes x check of their own property x seeds {seeds} (quick tier); /repo HEAD {head}")
    print("# exit 1 = reported, 0 = missed, 2 = inconclusive")
    weak = 0
    with concurrent.futures.ThreadPoolExecutor(par) as ex:
        for name, prop, hits, err in ex.map(lambda t: one(t[0], t[1], seeds, jobs), todo):
            if hits is None:
                print(f"{name:58} {prop}  {err}")
                weak += 1
                continue
            n = sum(1 for h in hits if h == 1)
            flag = "" if n == len(seeds) else "   <-- not every seed"
            weak += bool(flag)
            print(f"{name:58} {prop}  {n}/{len(seeds)}  exits={hits}{flag}", flush=True)
    print(f"# {len(todo)} changes, {weak} not reported at every seed")
    return 0


if __name__ == "__main__":
    sys.exit(main(sys.argv[1:]))
