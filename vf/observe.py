"""Event log, outcome normalisation, order pinning."""
import re

from . import boot
from .methods import UserExc, mid_of_handler

MAX_DEPTH = 40


class TooDeep(Exception):
    """Raised by generated bodies whose explicit recursion budget is exhausted."""


class VF:
    """Object injected as ``__vf`` into every generated method."""

    def __init__(self):
        self.log = []        # method ids in entry order
        self.entries = []    # (mid, locals) when keep_locals
        self.keep_locals = False
        self.on_enter = None  # optional monitor callback(mid, locals)
        self.depth = 0

    def clear(self):
        self.log.clear()
        self.entries.clear()
        self.depth = 0

    def enter(self, mid, loc):
        self.log.append(mid)
        if self.keep_locals:
            self.entries.append((mid, dict(loc)))
        if self.on_enter is not None:
            self.on_enter(mid, loc)

    # explicit recursion budget (pitfall 4): a RecursionError inside resolution is a C18 fault
    def deeper(self):
        self.depth += 1
        if self.depth > MAX_DEPTH:
            raise TooDeep()
        return True


_BIND_RX = re.compile(r"^(.+?)\(\) (takes|missing|got) ")


def classify_exception(e, vf, dispatch_names=()):
    if isinstance(e, UserExc):
        return ("user", e.mid)
    if isinstance(e, TooDeep):
        return ("toodeep",)
    if isinstance(e, TypeError):
        s = str(e)
        if s.startswith("No method in"):
            return ("none",)
        if s.startswith("Ambiguous resolution in"):
            return ("amb",)
        m = _BIND_RX.match(s)
        if m:
            if m.group(1) in dispatch_names or not dispatch_names:
                return ("bind",)
            return ("bind-method", m.group(1))
    return ("exc", type(e).__name__, str(e)[:100])


def outcome(thunk, vf, dispatch_names=()):
    """Run thunk(); reduce to a normalised outcome tuple.

    ("ran", (mids...), result) | ("none", mids) | ("amb", mids) | ("bind", mids) |
    ("user", mid, mids) | ("exc", cls, msg, mids) ..."""
    vf.clear()
    try:
        r = thunk()
    except BaseException as e:  # noqa: BLE001  (a RecursionError is an outcome too: generated bodies bound their own recursion)
        if isinstance(e, (KeyboardInterrupt, SystemExit)):
            raise
        k = classify_exception(e, vf, dispatch_names)
        return (*k, tuple(vf.log))
    return ("ran", tuple(vf.log), r)


def kind(out):
    return out[0]


def short(out):
    """Outcome without bulky parts, JSON-able."""
    def j(x):
        if isinstance(x, tuple):
            return [j(y) for y in x]
        if isinstance(x, (int, str, float, bool)) or x is None:
            return x
        return repr(x)[:60]
    return j(out)


# --------------------------------------------------------------------------- order pinning
def _type_key(t):
    try:
        s = repr(t)
    except Exception:
        s = object.__repr__(t)
    return re.sub(r"0x[0-9a-f]+", "", s)


def _cand_key(c):
    h = getattr(c, "handler", c)
    if isinstance(h, tuple):
        h = h[0]
    m = mid_of_handler(h)
    return (0, m) if m is not None else (1, getattr(h, "__name__", ""))


def canonical_permuter(site, seq):
    seq = list(seq)
    try:
        if site == "mro.candidates":
            return sorted(seq, key=_cand_key)
        return sorted(seq, key=_type_key)
    except TypeError:
        return seq


PIN_COUNTS = {"sort_types.avail": 0, "typemap.group": 0, "mro.candidates": 0}


def _counting_permuter(site, seq):
    PIN_COUNTS[site] = PIN_COUNTS.get(site, 0) + 1
    return canonical_permuter(site, seq)


def pin():
    """Install the canonical permuter on the library's order hooks (DESIGN 2.5a).
    Falls back to monkeypatching when the hooks are absent."""
    if boot.HOOKS:
        boot._verif.install(permuter=_counting_permuter, sink=boot._verif._sink)
        return "hooks"
    import ovld.mro as mro
    import ovld.typemap as tm

    orig = mro.sort_types
    if getattr(tm.sort_types, "__vf_pinned__", False):
        return "monkeypatch"

    def pinned_sort_types(cls, avail):
        PIN_COUNTS["sort_types.avail"] += 1
        return orig(cls, sorted(avail, key=_type_key))

    pinned_sort_types.__vf_pinned__ = True
    tm.sort_types = pinned_sort_types
    base_key = tm.Candidate.sort_key

    def sk(self):
        k = _cand_key(self)
        return (*base_key(self), -k[0], -(k[1] if isinstance(k[1], int) else 0))

    tm.Candidate.sort_key = sk
    return "monkeypatch"


def unpin():
    if boot.HOOKS:
        boot._verif.install(permuter=None, sink=boot._verif._sink)
