"""Executable specification: applicability, specificity, resolution, delegation chains.

A direct transcription of the property statements (C01, C02, C07, C10) and docs/*.md - it never
calls into ovld.  Answers are three-valued: a comparison the statements do not fix yields None and
the whole resolution then returns the wildcard "*" (counted as unspecified, never an alarm).
"""
from . import tx as T
from .prog import REC_LIMIT

WILD = "*"


# --------------------------------------------------------------------------- applicability
def shape_ok(m, call):
    """arity / keyword part of applicability (three-valued: None when a positional parameter is
    addressed by keyword, which is only documented for a narrow region - see C03)."""
    npos = len(call.get("pos", []))
    kws = set((call.get("kw") or {}))
    pos = m.get("pos", [])
    req = sum(1 for p in pos if not p.get("opt"))
    if not (req <= npos <= len(pos)):
        # a positional supplied by keyword could make up for it
        posnames = {p["n"] for p in pos[npos:] if not p.get("po")}
        if kws & posnames:
            return None
        return False
    declared = {k["n"] for k in m.get("kw", [])}
    extra = kws - declared
    if extra:
        if extra & {p["n"] for p in pos}:
            return None
        return False
    if any(k.get("req") and k["n"] not in kws for k in m.get("kw", [])):
        return False
    return True


def applicable(m, call, env, values=None):
    s = shape_ok(m, call)
    if s is not True:
        return s
    pos, kw = values if values is not None else _values(call, env)
    res = True
    for p, v in zip(m.get("pos", []), pos):
        a = True if p.get("t") is None else T.accepts(p["t"], env, v)
        if a is False:
            return False
        if a is None:
            res = None
    for k in m.get("kw", []):
        if k["n"] in kw:
            a = True if k.get("t") is None else T.accepts(k["t"], env, kw[k["n"]])
            if a is False:
                return False
            if a is None:
                res = None
    return res


def _values(call, env):
    return ([T.value(v, env) for v in call.get("pos", [])],
            {k: T.value(v, env) for k, v in (call.get("kw") or {}).items()})


# --------------------------------------------------------------------------- specificity
def rel(t1, t2, env):
    """'same' | 'lt' (t1 more specific) | 'gt' | 'none' (unordered) | None (unspecified)."""
    if t1 is None:
        t1 = "object"
    if t2 is None:
        t2 = "object"
    if T.tname(t1) == T.tname(t2):
        return "same"
    s1, s2 = isinstance(t1, str), isinstance(t2, str)
    if s1 and s2:
        c1, c2 = env.cls(t1), env.cls(t2)
        a, b = issubclass(c1, c2), issubclass(c2, c1)
        if a and b:
            return "same" if c1 is c2 else None
        return "lt" if a else "gt" if b else "none"
    y1 = (not s1) and t1[0] == "Ty" and isinstance(t1[1], str)
    y2 = (not s2) and t2[0] == "Ty" and isinstance(t2[1], str)
    if y1 and y2:
        # type[A] vs type[B]: by subtype (C14)
        return rel(t1[1], t2[1], env)
    if y1 and t2 == "object":
        return "lt"     # a class object is an instance of object; type[...] is the narrower statement about it
    if y2 and t1 == "object":
        return "gt"
    d1 = (not s1) and t1[0] in ("D", "L", "W")
    d2 = (not s2) and t2[0] in ("D", "L", "W")
    if d1 and s2:
        return _dep_vs_class(t1, t2, env)
    if d2 and s1:
        r = _dep_vs_class(t2, t1, env)
        return {"lt": "gt", "none": "none", None: None}[r]
    if d1 and d2:
        b1, b2 = T.bound_of(t1, env), T.bound_of(t2, env)
        if isinstance(b1, str) and isinstance(b2, str) and b1 == b2:
            if t1[0] == "L" and t2[0] == "L":
                return "none"
            if t1[0] == "W" and t2[0] == "W":
                return _wild_rel(t1[1:], t2[1:])
            return "none"   # no user-defined '<' between harness predicates
        return None
    return None


def _wild_rel(p1, p2):
    """docs/dependent.md, Wildcards: `Any` is more general than a specific value *in that position*; a pattern is
    preferred over another iff it is at least as specific everywhere and more specific somewhere.  Patterns that differ
    in a specific value never hold together, so their relation cannot matter ('none')."""
    if len(p1) != len(p2) or any(a != b and a != "*" and b != "*" for a, b in zip(p1, p2)):
        return "none"
    g1 = any(a == "*" and b != "*" for a, b in zip(p1, p2))   # p1 more general somewhere
    g2 = any(b == "*" and a != "*" for a, b in zip(p1, p2))
    if g2 and not g1:
        return "lt"
    if g1 and not g2:
        return "gt"
    return "none"


def _dep_vs_class(d, c, env):
    """docs/dependent.md: a dependent type is more specific than its bound and any of the bound's
    subclasses; (by transitivity) also than the bound's superclasses."""
    b = T.bound_of(d, env)
    if not isinstance(b, str):
        return None
    bc, cc = env.cls(b), env.cls(c)
    if issubclass(cc, bc) or issubclass(bc, cc):
        return "lt"
    return "none"


def sig_identical(m1, m2):
    def key(m):
        # the names of positional parameters are not part of a signature (types, which may be omitted, keyword names)
        return ([(T.tname(p["t"]) if p.get("t") is not None else "object", bool(p.get("opt"))) for p in m.get("pos", [])],
                sorted((k["n"], T.tname(k["t"]) if k.get("t") is not None else "object", bool(k.get("req")))
                       for k in m.get("kw", [])))
    return key(m1) == key(m2)


def beats(m1, m2, call, env, index):
    """m1 beats m2 for this call: True / False / None.  index: registration index by mid."""
    p1, p2 = m1.get("prio", 0), m2.get("prio", 0)
    if p1 != p2:
        return p1 > p2
    npos = len(call.get("pos", []))
    kws = sorted((call.get("kw") or {}))
    k1 = {k["n"]: k.get("t") for k in m1.get("kw", [])}
    k2 = {k["n"]: k.get("t") for k in m2.get("kw", [])}
    pairs = [(a.get("t"), b.get("t")) for a, b in zip(m1["pos"][:npos], m2["pos"][:npos])]
    pairs += [(k1[k], k2[k]) for k in kws]
    rels = [rel(a, b, env) for a, b in pairs]
    if all(r == "same" for r in rels):
        if sig_identical(m1, m2):
            return index[m1["mid"]] > index[m2["mid"]]
        return None     # coincide on everything supplied, differ elsewhere: statement reads either way
    if any(r is None for r in rels):
        # a definite 'gt'/'none' elsewhere already settles that m1 does not beat m2
        if any(r in ("gt", "none") for r in rels):
            return False
        return None
    return all(r in ("same", "lt") for r in rels)


def resolve(methods, call, env, values=None, index=None):
    """-> ("win", mid) | ("none",) | ("amb", [mids]) | WILD"""
    index = index or {m["mid"]: i for i, m in enumerate(methods)}
    values = values if values is not None else _values(call, env)
    app = []
    for m in methods:
        a = applicable(m, call, env, values)
        if a is None:
            return WILD
        if a:
            app.append(m)
    if not app:
        return ("none",)
    winners = []
    unknown = False
    for m in app:
        rs = [beats(m, o, call, env, index) for o in app if o is not m]
        if all(r is True for r in rs):
            winners.append(m)
        elif any(r is None for r in rs) and not any(r is False for r in rs):
            unknown = True
    if unknown and not winners:
        return WILD
    if len(winners) == 1:
        if unknown:
            return WILD
        return ("win", winners[0]["mid"])
    if winners:
        return WILD  # cannot happen with a consistent relation; be conservative
    top = max(m.get("prio", 0) for m in app)
    return ("amb", sorted(m["mid"] for m in app if m.get("prio", 0) == top))


def chain(methods, call, env, values=None):
    """C07: iterated removal of the winner.  -> list of mids, then terminal 'none' | 'amb' | WILD"""
    index = {m["mid"]: i for i, m in enumerate(methods)}
    left = list(methods)
    out = []
    while True:
        r = resolve(left, call, env, values, index)
        if r == WILD:
            out.append(WILD)
            return out
        if r[0] != "win":
            out.append(r[0])
            return out
        out.append(r[1])
        left = [m for m in left if m["mid"] != r[1]]


# --------------------------------------------------------------------------- expected result trees
class Err(Exception):
    def __init__(self, kind):
        self.kind = kind


def expected(methods, call, env):
    """Expected outcome of the public call: ("ran", tree) | ("none",) | ("amb",) | ("user", mid) | WILD.
    Mirrors prog.body_lines."""
    st = {"nrec": 0}
    by_mid = {m["mid"]: m for m in methods}
    index = {m["mid"]: i for i, m in enumerate(methods)}
    altcall = {"pos": call.get("alt", []), "kw": {}}

    def run(avail, c, vals):
        r = resolve(avail, c, env, vals, index)
        if r == WILD:
            raise Err(WILD)
        if r[0] != "win":
            raise Err(r[0])
        m = by_mid[r[1]]
        k = m.get("kind", "leaf")
        if k == "leaf":
            return ("m", m["mid"])
        if k == "raise":
            raise Err(("user", m["mid"]))
        if k in ("next", "fnext"):
            c2 = c if k == "next" else {"pos": c.get("pos", []), "kw": {}}
            # call_next(args): as if the current method and everything ranked above it were absent
            below = _below(avail, m, c2, vals if k == "next" else None)
            return ("n", m["mid"], run(below, c2, vals if k == "next" else None))
        if k == "rec":
            st["nrec"] += 1
            if st["nrec"] > REC_LIMIT:
                return ("m", m["mid"])
            return ("r", m["mid"], run(methods, altcall, None))
        if k in ("nextalt", "fnextalt"):
            st["nrec"] += 1
            if st["nrec"] > REC_LIMIT:
                return ("m", m["mid"])
            # the chain is relative to the *new* arguments: remove what ranks above the current method
            # for them; if the current method is not applicable to them it is a fresh call
            a = applicable(m, altcall, env)
            if a is None:
                raise Err(WILD)
            if not a:
                return ("n", m["mid"], run(methods, altcall, None))
            return ("n", m["mid"], run(_below(methods, m, altcall, None), altcall, None))
        raise ValueError(k)

    def _below(avail, m, c, vals):
        """avail minus m and everything that ranks above m for call c (iterated removal)."""
        left = list(avail)
        while True:
            r = resolve(left, c, env, vals, index)
            if r == WILD:
                raise Err(WILD)
            if r[0] != "win":
                # m is applicable but sits in / under a tied rank: the statement's construction is
                # not defined there
                raise Err(WILD)
            left = [x for x in left if x["mid"] != r[1]]
            if r[1] == m["mid"]:
                return left

    try:
        return ("ran", run(methods, call, None))
    except Err as e:
        if e.kind == WILD:
            return WILD
        if isinstance(e.kind, tuple):
            return e.kind
        return (e.kind,)
