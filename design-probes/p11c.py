import sys, threading, random, time, os
import ovld, ovld.core, ovld.typemap, ovld.mro, ovld.recode
from ovld import Ovld
LIBDIR = os.path.dirname(ovld.__file__)
mon = sys.monitoring
TOOL = 3

class Sched:
    """Cooperative scheduler: exactly one registered thread runs library code at a time."""
    def __init__(self, rng, nthreads, switch_p=0.2):
        self.rng = rng; self.cv = threading.Condition(); self.current = None
        self.alive = set(); self.n = nthreads; self.started = 0; self.switch_p = switch_p
        self.trace = []; self.steps = 0
    def register(self, tid):
        with self.cv:
            self.alive.add(tid); self.started += 1
            if self.started == self.n:
                self.current = self.rng.choice(sorted(self.alive)); self.cv.notify_all()
            while self.started < self.n or self.current != tid:
                self.cv.wait(5)
    def point(self, tid, where):
        with self.cv:
            self.steps += 1
            if len(self.alive) > 1 and self.rng.random() < self.switch_p:
                others = sorted(self.alive - {tid})
                self.current = self.rng.choice(others)
                self.trace.append((tid, where, self.current))
                self.cv.notify_all()
                while self.current != tid:
                    if not self.cv.wait(10): raise RuntimeError("sched timeout")
    def finish(self, tid):
        with self.cv:
            self.alive.discard(tid)
            if self.current == tid and self.alive:
                self.current = self.rng.choice(sorted(self.alive))
            self.cv.notify_all()

tls = threading.local()
sched = None
def on_line(code, line):
    if not code.co_filename.startswith(LIBDIR) and not code.co_filename.startswith("<ovld"):
        return mon.DISABLE
    tid = getattr(tls, "tid", None)
    if tid is None or sched is None: return
    sched.point(tid, (os.path.basename(code.co_filename), line))
mon.use_tool_id(TOOL, "sched")
E=mon.events
NOYIELD={len,isinstance,type,str,tuple,id,hasattr,getattr,issubclass}
def on_start(code, off):
    return on_line(code, ("start", off))
def on_jump(code, off, dst):
    if dst < off: return on_line(code, ("jump", off))
def on_call(code, off, fn, arg0):
    if any(fn is x for x in NOYIELD): return
    if not (code.co_filename.startswith(LIBDIR) or code.co_filename.startswith("<ovld")): return
    return on_line(code, ("call", off))
mon.register_callback(TOOL, E.PY_START, on_start); mon.register_callback(TOOL, E.JUMP, on_jump); mon.register_callback(TOOL, E.CALL, on_call)
mon.set_events(TOOL, E.PY_START|E.JUMP|E.CALL)

def build():
    o = Ovld()
    @o.register
    def f(x: int): return "int"
    @o.register
    def f(x: str): return "str"
    @o.register
    def f(x: object): return "obj"
    return o.dispatch

def run(seed):
    global sched
    rng = random.Random(seed)
    d = build()
    sched = Sched(rng, 2, switch_p=float(sys.argv[1]))
    res = {}
    def worker(tid, arg):
        tls.tid = tid
        sched.register(tid)
        try:
            try: res[tid] = d(arg)
            except BaseException as e: res[tid] = f"EXC {type(e).__name__}: {str(e)[:60]}"
        finally:
            sched.finish(tid); tls.tid = None
    ts = [threading.Thread(target=worker, args=(i, a)) for i, a in enumerate([1, "s"])]
    for t in ts: t.start()
    for t in ts: t.join(30)
    s = sched; sched = None
    return res, s.steps, len(s.trace)
t0=time.time()
bad=0; N=100
outcomes={}
for seed in range(N):
    res, steps, sw = run(seed)
    key = (res.get(0), res.get(1))
    outcomes[key] = outcomes.get(key,0)+1
print(time.time()-t0, "s for", N, "runs; steps", steps, "switches", sw)
for k,v in outcomes.items(): print(v, k)
