import collections
from h import *
import pin
from ovld import class_check, Dependent
class A: pass
class B(A): pass
class Boom(Exception): pass
def scenario(k_fail, where):
    n = [0]
    def pred(cls):
        n[0] += 1
        if where == "pred" and n[0] == k_fail: raise Boom()
        return cls.__name__ in ("B", "int")
    pred.__name__ = "P"
    P = class_check(pred)
    def cond(x):
        n[0] += 1
        if where == "cond" and n[0] == k_fail: raise Boom()
        return x > 0
    specs = [dict(mid=0, params=["x"], anns={"x": P}, body=["return (0, call_next(x))"]),
             dict(mid=1, params=["x"], anns={"x": A}, body=["return (1, call_next(x))"]),
             dict(mid=2, params=["x"], anns={"x": object}, body=["return (2,)"]),
             dict(mid=3, params=["x"], anns={"x": Dependent[int, cond]}, body=["return (3, call_next(x))"])]
    o = build(specs); d = o.dispatch
    return d, n
# reference
d, n = scenario(10**9, "none")
probes = [B(), A(), 5, -5, "s"]
ref = [repr(outcome(lambda v=v: d(v))[:2]) for v in probes]; total = n[0]
print("reference", ref, "hook invocations", total)
res = collections.Counter(); ex = {}
for where in ("pred", "cond"):
    for k in range(1, total + 1):
        d, n = scenario(k, where)
        first = []
        for v in probes:
            try: first.append(repr(outcome(lambda v=v: d(v))[:2]))
            except Boom: first.append("Boom")
        after = [repr(outcome(lambda v=v: d(v))[:2]) for v in probes]
        ok = tuple(a == r for a, r in zip(after, ref))
        res[(where, all(ok))] += 1
        if not all(ok): ex.setdefault(where, (k, first, after))
print(dict(res))
for k, v in ex.items(): print(k, v)
