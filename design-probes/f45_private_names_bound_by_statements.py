"""F45 (C09): class-private names *bound by statements* in a rewritten method, and a function defined inside a method.
Before 69c6444: NameError name '_C__e' is not defined / AttributeError 'E' object has no attribute '__secret'."""
from ovld import OvldBase, ovld, recurse


class C(OvldBase):
    def f(self, x: int):
        try:
            raise ValueError(x)
        except ValueError as __e:
            def __helper(z):
                return z + 1
            import os.path as __osp
            return (recurse(str(__e.args[0])), __helper(1), __osp.basename("a/b"))

    def f(self, x: str):
        return "s" + x


class E:
    __secret = 7

    def make(self):
        @ovld
        def f(x: int):
            return self.__secret + recurse(str(x))

        @f.register
        def f(x: str):
            return len(x)
        return f


assert C().f(3) == ("s3", 2, "b"), C().f(3)
assert E().make()(10) == 9
print("ok")
