"""F46 (C13): Deferred["pkg.sub.Cls"] where pkg/__init__ does not import pkg.sub.  Before the fix a call with a value
whose class lives in pkg raised AttributeError: module 'f46pkg' has no attribute 'sub'."""
import os
import sys
import tempfile

d = tempfile.mkdtemp()
os.makedirs(os.path.join(d, "f46pkg"))
open(os.path.join(d, "f46pkg", "__init__.py"), "w").write("class Root:\n    pass\n")
open(os.path.join(d, "f46pkg", "sub.py"), "w").write("class Cls:\n    pass\n")
sys.path.insert(0, d)

from ovld import ovld  # noqa: E402
from ovld.types import Deferred  # noqa: E402


@ovld
def f(x: Deferred["f46pkg.sub.Cls"]):
    return "cls"


@ovld
def f(x: object):
    return "object"


import f46pkg  # noqa: E402

assert f(f46pkg.Root()) == "object"
import f46pkg.sub  # noqa: E402

assert f(f46pkg.sub.Cls()) == "cls"
print("ok")
