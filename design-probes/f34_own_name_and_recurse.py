from ovld import ovld, recurse

@ovld
def total(x: int):
    return x

@ovld
def total(xs: list):
    # the function's own name and recurse in one body
    return total(xs[0]) + sum(recurse(x) for x in xs[1:])

try:
    got = total([1, [2, 3], 4])
except Exception as e:
    got = f"{type(e).__name__}: {e}"[:80]
print(got)
print("PASS" if got == 10 else "FAIL")
