import enum
from typing import Literal
from ovld import ovld

class Color(enum.IntEnum):
    RED = 1
    BLUE = 2

@ovld
def f(x: Literal[Color.RED]):
    return "red"
@ovld
def f(x: Literal[Color.BLUE] | None):
    return "blue or nothing"
@ovld
def f(x: object):
    return "other"

out = []
for v in (Color.RED, Color.BLUE, None, 1, 3):
    try:
        out.append(f(v))
    except Exception as e:
        out.append(f"{type(e).__name__}: {e}"[:60])
print(out)
print("PASS" if out == ["red", "blue or nothing", "blue or nothing", "other", "other"] else "FAIL")
