import sys; sys.argv=["x","0"]
import c01, random, linecache
from h import *
# instrument: re-run seed 1 but catch the violating call
orig_run = c01.run
rng = random.Random(1)
import h
specs, out, n = c01.run(1)
# rebuild and brute force calls to find the violating one
o = build(specs)
for fn in o.defns.values(): fn.__globals__["__vf"] = c01.VF3()
classes = None
# replicate value set: need the same classes -> re-generate
rng = random.Random(1); classes = gen_hierarchy(rng, rng.randint(2, 5))
vals = [0, 1, 2, -3, True, c01.MyInt(2), c01.MyInt(3), "s", (1,), ("s",), [1], ["s"], [], None, object()]
import itertools
found = 0
for args in itertools.product([True, 1, 2], [c01.MyInt(2), c01.MyInt(3), 1], vals):
    c01.ENT.clear()
    try: r = o(*args)
    except Exception as e: continue
    for mid, loc in c01.ENT:
        if mid == 0 and not isinstance(loc["a0"], specs[0]["anns"]["a0"]):
            print("VIOL call", [repr(a) for a in args], "entries", [m for m, _ in c01.ENT]); found += 1
            if found == 1:
                o.display_resolution(*args)
                for k, v in linecache.cache.items():
                    if k.startswith("<ovld") and "DEPENDENT" in "".join(v[2]): print("".join(v[2]))
    if found >= 3: break
print({k: str(v) for k, v in specs[0]["anns"].items()}, specs[0]["params"])
