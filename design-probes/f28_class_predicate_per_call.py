import typing
from ovld import ovld, class_check, Dependent
from ovld.dependent import Equals, dependent_check
calls = []
@class_check
def Tagged(cls):
    calls.append(cls); return getattr(cls, "tagged", False)
class Thing: tagged = True
@dependent_check
def Truthy(value: object): return True

@ovld
def f(x: typing.Union[Equals[0], Tagged]): return "u"
@ovld
def f(x: object): return "o"
t = Thing(); f(t); f(0); f(1)            # warm-up
del calls[:]; f(t); f(0); f(1)
print(len(calls))

@ovld
def g(x: Tagged & Dependent[object, Truthy]): return "i"
@ovld
def g(x: object): return "o"
g(t); g(1); del calls[:]; g(t); g(1)
print(len(calls))
