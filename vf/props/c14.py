"""C14 - types passed as arguments dispatch on type[...] by subtype.

Monitor (from inside generated method bodies): for every call f(a, b) where each argument is either a
passed type object (class, parametrised generic, nested parametrisation, typing.Any) or an ordinary
value, and every method's parameters are either type[T] / bare type / an ordinary class:
  (a) the method entered is applicable under an *independent* subtype model (tx._subtype):
      subclass for classes; same-or-subclass origin + argument-wise subtyping for generics;
      bare type == type[object]; Any counts as object;
  (b) 'No method' only when the model says nothing is applicable; an ambiguity only when >= 2 are;
  (c) when the model has a unique most specific applicable method (type[X] below type[Y] iff X is a
      subtype of Y; any type[...] below object; ordinary parameters by class), that method runs.
"""
import typing

from .. import boot  # noqa: F401
from .. import gen, tx as T
from ..methods import make_method, forget
from ..observe import VF, outcome, pin

from ovld import Ovld

ID = "C14"
LEVEL = "exploration"
RULE = ("cases = random class DAG x 1-6 methods with two positions, each parameter type[T] (T class or generic "
        "alias up to 2 levels), bare type, or an ordinary class x 25 calls mixing passed types (classes, list/dict/"
        "Sequence/typing.List parametrisations, nested, typing.Any) and ordinary values; distinct_nontrivial = "
        "distinct (method-set signature, call) pairs where >= 2 type[...] methods are applicable")
ASSUMPTIONS = [
    "issubclass on origins and typing.get_origin/get_args define the subtype relation of generic aliases",
    "typing.Any inside an annotation (type[Any], type[list[Any]]) is outside the statement and never generated",
    "argument-wise subtyping is only asserted for equal arity",
]
REPORT_COUNTERS = ["calls", "calls_passed_generic", "calls_passed_nested", "calls_any", "calls_passed_generic_with_any_argument", "refinement_pair_programs", "two_type_methods_applicable",
                   "unique_best_checked", "pos_subtler", "pos_plain_type", "strict_first_posonly", "strict_first_names", "resolve_checked",
                   "calls_repeated_through_recurse", "batches_sibling_built_first", "batches_sibling_built_last",
                   "late_abc_registration_checked"]


def plan(tier):
    n = 1600 if tier == "quick" else 32000
    return {"cases": n, "params": {}, "timeout_s": 900 if tier == "quick" else 3600,
            "min": {"calls": 20_000, "calls_passed_nested": 1_000, "two_type_methods_applicable": 500,
                    "pos_subtler": 100, "pos_plain_type": 100, "calls_any": 200,
                    "calls_passed_generic_with_any_argument": 300, "refinement_pair_programs": 100,
                    "calls_repeated_through_recurse": 5_000, "batches_sibling_built_last": 200}}


def _gen_alias(rng, classes, depth=0, any_ok=False):
    """any_ok: the alias is a *passed* value - typing.Any may then stand as an argument of a generic"""
    r = rng.random()
    if any_ok and depth >= 1 and rng.random() < 0.2:
        return "Any"
    if r < 0.45 or depth >= 2:
        return rng.choice(classes)
    if r < 0.7:
        return ["G", "list", _gen_alias(rng, classes, depth + 1, any_ok)]
    if r < 0.85:
        return ["G", "dict", _gen_alias(rng, classes, depth + 1, any_ok), _gen_alias(rng, classes, depth + 1, any_ok)]
    if r < 0.90:
        return ["G", "Sequence", _gen_alias(rng, classes, depth + 1, any_ok)]
    if r < 0.96:
        return ["G", "tuple", *[_gen_alias(rng, classes, depth + 1, any_ok) for _ in range(rng.choice([1, 2, 2, 3]))]]
    return ["G", "set", _gen_alias(rng, classes, depth + 1, any_ok)]


SPECIAL = ("Shape", "HasFly", "Hashable")


def _gen_param(rng, classes, p_type):
    r = rng.random()
    if r < p_type:
        return ["Ty", _gen_alias(rng, classes)]
    if r < p_type + 0.1:
        return "type"
    # ordinary parameters: plain classes only (whether a *class object* is an instance of a structural protocol
    # or of an ABC such as Hashable is a question about metaclasses the statement does not address)
    return rng.choice(["object", "object", "int", "str", rng.choice([c for c in classes if c not in SPECIAL])])


def gen_case(rng, params, idx):
    hier = gen.gen_hierarchy(rng, rng.randint(2, 5), attrs=True)
    for s_ in hier:
        if rng.random() < 0.25:
            s_["ordhook"] = True        # a user metaclass
    # classes whose metaclass is not `type` itself (ABCs, protocols) are passed around as arguments too
    classes = [s["name"] for s in hier] + ["int", "bool", "object", "str", "Shape", "HasFly", "Hashable"]
    p0 = rng.choice([0.0, 0.75, 0.75, 0.75])
    p1 = rng.choice([0.0, 0.0, 0.0, 0.6])
    methods = []
    # the first position is sometimes *strictly positional* (positional-only, or named differently by different
    # methods) while the second stays an ordinary positional-or-keyword parameter: the entry point then builds its
    # lookup key from two separate groups of parameters
    strict = rng.choice(["no", "no", "posonly", "names"])
    for i in range(rng.randint(1, 6)):
        first = {"n": "a" if strict != "names" else f"a{i % 2}", "t": _gen_param(rng, classes, p0)}
        if strict == "posonly":
            first["po"] = True
        methods.append({"mid": i, "pos": [first, {"n": "b", "t": _gen_param(rng, classes, p1)}]})
    calls = []
    if rng.random() < 0.35:
        # a refinement pair: two type[...] methods on the same generic of >= 2 arguments that differ in one *earlier*
        # argument only (a class and a subclass of it), the later arguments identical; the refined alias is passed
        subs = [(b, s_["name"]) for s_ in hier for b in s_["bases"]] + [("int", "bool"), ("object", "int"), ("object", "str")]
        P, C = rng.choice(subs)
        z, w = rng.choice(classes), rng.choice(classes)
        if rng.random() < 0.5:
            a1, a2 = ["G", "dict", P, z], ["G", "dict", C, z]
        else:
            a1, a2 = ["G", "tuple", P, z, w], ["G", "tuple", C, z, w]
        if rng.random() < 0.3:
            a1, a2 = ["G", "list", a1], ["G", "list", a2]
        for a in (a1, a2):
            i = len(methods)
            first = {"n": "a" if strict != "names" else f"a{i % 2}", "t": ["Ty", a]}
            if strict == "posonly":
                first["po"] = True
            methods.append({"mid": i, "pos": [first, {"n": "b", "t": "object"}]})
        for a in (a2, a2, a1):
            calls.append([["c", a], rng.choice([["v", 1], ["v", "s"]])])
        spec_refine = True
    else:
        spec_refine = False
    for _ in range(25):
        args = []
        for p in (0.8, 0.3):
            r = rng.random()
            if r < p * 0.92:
                args.append(["c", _gen_alias(rng, classes, any_ok=True)])
            elif r < p:
                args.append(["any"])
            else:
                args.append(rng.choice([["v", 1], ["v", "s"], ["v", 2.5], ["v", True],
                                        ["i", rng.choice([s["name"] for s in hier])]]))
        calls.append(args)
    for j, pj in ((0, p0), (1, p1)):
        if all(isinstance(m["pos"][j]["t"], str) and m["pos"][j]["t"] != "type" for m in methods) and rng.random() < 0.5:
            # no type[...] annotation at this position: classes passed there are looked up by their own type, i.e.
            # dispatched on their *metaclass* (ABCs and protocols have ABCMeta)
            for m in methods:
                if rng.random() < 0.5:
                    m["pos"][j]["t"] = "ABCMeta"
    kwcalls = {}
    if rng.random() < 0.3:
        # a keyword-only parameter `k` annotated type[...] (required by some methods, optional for others, absent from
        # others): classes are passed through it by keyword
        for m in methods:
            r = rng.random()
            if r < 0.6:
                m["kw"] = [{"n": "k", "t": ["Ty", _gen_alias(rng, classes)] if rng.random() < 0.8 else "type", "req": r < 0.3}]
        for i in range(len(calls)):
            if rng.random() < 0.7:
                kwcalls[str(i)] = ["c", _gen_alias(rng, classes, any_ok=True)]
    return {"hier": hier, "methods": methods, "calls": calls, "strict_first": strict, "refine": spec_refine,
            "string_annotations": rng.random() < 0.3, "kwcalls": kwcalls}


def _is_passed(vx):
    return vx[0] in ("c", "any")


def _param_accepts(ptx, env, vx, val):
    if isinstance(ptx, str) and ptx != "type":
        C = env.cls(ptx)
        if _is_passed(vx):
            # a passed type is an object - and an instance of its metaclass; of no other plain class
            return isinstance(val, C) if isinstance(val, type) else C is object
        return isinstance(val, C)
    if not _is_passed(vx):
        return False
    inner = "object" if ptx == "type" else ptx[1]
    return T.type_arg_sat(inner, env, val)


def _le(p1, p2, env):
    """parameter type p1 at least as specific as p2 (model)."""
    t1 = isinstance(p1, list) or p1 == "type"
    t2 = isinstance(p2, list) or p2 == "type"
    if t1 and t2:
        i1 = env.cls("object") if p1 == "type" else T.ann(p1[1], env)
        i2 = env.cls("object") if p2 == "type" else T.ann(p2[1], env)
        return T._subtype(i1, i2)
    if t1:
        return p2 == "object"
    if t2:
        return False
    return issubclass(env.cls(p1), env.cls(p2))


def check_case(spec, res):
    pin()
    env = T.Env(spec["hier"])
    vf = VF()
    o = Ovld()
    files = []
    import typing
    ns = {}          # the methods of a case - and of a second, unrelated function - share one module namespace
    for m in spec["methods"]:
        over = {}
        if spec.get("string_annotations"):
            # the same annotations written as strings (PEP 563 style): "type", "type[K0]", "typing.Any", "object"
            for p in m["pos"]:
                t = p["t"]
                if t == "type":
                    over[p["n"]] = "type"
                elif t == "object":
                    over[p["n"]] = "typing.Any" if m["mid"] % 2 else "object"
                elif isinstance(t, list) and t[0] == "Ty" and isinstance(t[1], str):
                    over[p["n"]] = f"type[{t[1]}]"
        fn, f = make_method(m, env, vf, [f"return {m['mid']}"], tag="c14", ann_override=over or None,
                            extra_globals={**env.names, "typing": typing} if over else None, shared_ns=ns)
        o.register(fn)
        files.append(f)
    if spec.get("string_annotations"):
        res.count("programs_with_string_annotations")
    res.sample(spec)
    res.count("strict_first_" + spec.get("strict_first", "no"))
    sigkey = sorted(T.tname(p["t"]) for m in spec["methods"] for p in m["pos"])
    o.compile()
    aa = o.argument_analysis
    for pos in (0, 1):
        res.count("pos_subtler" if pos in aa.complex_transforms else "pos_plain_type")
    if spec.get("refine"):
        res.count("refinement_pair_programs")
    ran_plain = []     # (values, method id) of the calls without keyword that ran
    for ci, args in enumerate(spec["calls"]):
        vals = [T.value(a, env) for a in args]
        kwx = (spec.get("kwcalls") or {}).get(str(ci))
        kwv = {"k": T.value(kwx, env)} if kwx is not None else {}
        if kwx is not None:
            res.count("calls_class_passed_by_keyword")
        res.ev()
        res.count("calls")
        for a in args:
            if a[0] == "any":
                res.count("calls_any")
            elif a[0] == "c" and isinstance(a[1], list):
                res.count("calls_passed_generic")
                if any(isinstance(x, list) for x in a[1][2:]):
                    res.count("calls_passed_nested")
                if "'Any'" in repr(a[1]):
                    res.count("calls_passed_generic_with_any_argument")
        def kw_ok(m):
            ks = m.get("kw") or []
            if kwx is None:
                return not any(k["req"] for k in ks)
            return bool(ks) and _param_accepts(ks[0]["t"], env, kwx, kwv["k"])
        app = [m for m in spec["methods"]
               if all(_param_accepts(p["t"], env, a, v) for p, a, v in zip(m["pos"], args, vals)) and kw_ok(m)]
        app_ids = [m["mid"] for m in app]
        ntype = sum(1 for m in app if any(isinstance(p["t"], list) or p["t"] == "type" for p in m["pos"]))
        if ntype >= 2:
            res.count("two_type_methods_applicable")
            res.nontrivial([sigkey, [T.vname(a) for a in args]])
        out = outcome(lambda: o(*vals, **kwv), vf)
        callname = [T.vname(a) for a in args] + ([f"k={T.vname(kwx)}"] if kwx is not None else [])
        # resolve() must name the method the call enters (or raise the same kind of error), for passed types too
        from ..methods import mid_of_handler
        from ..observe import classify_exception
        try:
            rh = ("handler", mid_of_handler(o.resolve(*vals)))
        except Exception as e:  # noqa: BLE001
            rh = classify_exception(e, vf)
        if kwv or any(m.get("kw") for m in spec["methods"]):
            rh = ("skipped",)       # resolve() takes no keywords
        else:
            res.count("resolve_checked")
        if rh == ("skipped",):
            pass
        elif out[0] == "ran" and rh != ("handler", out[1][0] if out[1] else None) or \
                out[0] in ("none", "amb") and rh[0] not in (out[0], "bind"):
            res.violation("resolve-vs-call", [out[0], rh[0]], spec,
                          observed={"call": callname, "call_outcome": [str(x) for x in out[:2]], "resolve": [str(x) for x in rh[:2]]},
                          acceptable="resolve() names the method the call runs")
        if out[0] == "ran" and kwx is None and out[1]:
            ran_plain.append((vals, out[1][0]))
        if out[0] == "ran":
            got = out[1][0] if out[1] else None
            if got not in app_ids:
                res.violation("ran-inapplicable", ["ran-inapplicable"], spec,
                              observed={"call": callname, "ran": got}, acceptable={"applicable": app_ids})
                continue
        elif out[0] in ("none", "bind"):
            if app_ids:
                res.violation("none-but-applicable", ["none"], spec, observed={"call": callname},
                              acceptable={"applicable": app_ids})
            continue
        elif out[0] == "amb":
            if len(app_ids) < 2:
                res.violation("ambiguous-but", ["amb", len(app_ids)], spec, observed={"call": callname},
                              acceptable={"applicable": app_ids})
        else:
            res.violation("crash", [out[0], out[1] if out[0] == "exc" else None], spec,
                          observed={"call": callname, "outcome": [str(x) for x in out]},
                          acceptable={"applicable": app_ids})
            continue
        # (c) preference
        if len(app) > 1:
            if len({bool(m.get("kw")) for m in app}) > 1:
                res.skip_unspec()       # a method with and one without the keyword: how they compare is not stated
                continue

            def plist(m):
                return m["pos"] + (m.get("kw") or [] if kwx is not None else [])

            def cn(t):      # bare `type` is type[object]
                n = T.tname(t)
                return "Ty[object]" if n == "type" else n

            def key_(m, kw):
                return ([cn(p_["t"]) for p_ in m["pos"]], [cn(k_["t"]) for k_ in (m.get("kw") or [])] if kw else None)
            if kwx is None and any(key_(x, False) == key_(y, False) and key_(x, True) != key_(y, True)
                                   for x in app for y in app if x is not y):
                res.skip_unspec()       # they coincide on everything supplied and differ in an omitted keyword
                continue

            def reqs(m):
                return [bool(k_.get("req")) for k_ in (m.get("kw") or [])]
            if any(key_(x, True) == key_(y, True) and reqs(x) != reqs(y) for x in app for y in app if x is not y):
                res.skip_unspec()       # the same types, the keyword required by one and optional in the other: two
                continue                # different signatures that nothing orders (neither replaces the other)

            def beats(m1, m2):
                le = all(_le(p1["t"], p2["t"], env) for p1, p2 in zip(plist(m1), plist(m2)))
                same = all(T.tname(p1["t"]) == T.tname(p2["t"]) or
                           {T.tname(p1["t"]), T.tname(p2["t"])} == {"type", "Ty[object]"}
                           for p1, p2 in zip(plist(m1), plist(m2)))
                if same:
                    return m1["mid"] > m2["mid"]
                return le
            best = [m["mid"] for m in app if all(m is n or beats(m, n) for n in app)]
            if len(best) == 1:
                res.count("unique_best_checked")
                if out[0] != "ran" or out[1][0] != best[0]:
                    res.violation("not-most-specific", [out[0]], spec,
                                  observed={"call": callname, "outcome": [str(x) for x in out][:2]},
                                  acceptable={"best": best, "applicable": app_ids})
            else:
                res.skip_unspec()
    _batch(spec, res, env, vf, o, ns, files, ran_plain)
    _late_abc(spec, res, env, vf, files)
    forget(files)


def _late_abc(spec, res, env, vf, files):
    """History: a class is passed to a function, *then* registered as a virtual subclass of an abstract class; a
    function built (or rebuilt) afterwards must treat it as the subclass it now is - an answer given before the
    registration, to another function, must not live on anywhere."""
    Shape = env.cls("Shape")
    cands = [env.cls(s["name"]) for s in spec["hier"] if not issubclass(env.cls(s["name"]), Shape)]
    if not cands:
        return
    K = cands[0]

    def build(tag):
        o2 = Ovld()
        for mid, t in ((1, ["Ty", "Shape"]), (0, ["Ty", "object"])):
            fn, f = make_method({"mid": mid, "pos": [{"n": "a", "t": t}]}, env, vf, [f"return {mid}"], tag="c14l")
            o2.register(fn)
            files.append(f)
        return o2
    before = build("a")
    out = outcome(lambda: before(K), vf)
    if out[0] != "ran" or out[2] != 0:
        res.violation("not-most-specific", ["late-abc", "before"], spec, observed={"call": "class not yet registered", "outcome": [str(x) for x in out[:3]]},
                      acceptable="the type[object] method")
        return
    Shape.register(K)
    fresh = build("b")
    fn, f = make_method({"mid": 2, "pos": [{"n": "a", "t": "str"}]}, env, vf, ["return 2"], tag="c14l")
    files.append(f)
    before.register(fn)        # the first function is rebuilt by a later registration
    for label, fnc in (("fresh function", fresh), ("rebuilt function", before)):
        res.ev()
        res.count("late_abc_registration_checked")
        out = outcome(lambda: fnc(K), vf)
        if out[0] != "ran" or out[2] != 1:
            res.violation("not-most-specific", ["late-abc", label], spec,
                          observed={"call": f"class registered with the ABC after it had been passed once; {label}",
                                    "outcome": [str(x) for x in out[:3]]},
                          acceptable="the type[Shape] method")


def _batch(spec, res, env, vf, o, ns, files, ran_plain):
    """The same calls made from inside a method of the function (recurse on the elements of two tuples) enter the
    same methods as the direct calls did - also when an unrelated function on ordinary values, whose methods use
    recurse as well, lives in the same module and was built before or after."""
    if not ran_plain:
        return
    m0 = spec["methods"][0]
    walker = {"mid": 900, "pos": [dict(p, t="tuple") for p in m0["pos"]]}
    a, b = (p["n"] for p in walker["pos"])
    sib = Ovld()
    sfiles = []
    for mid, t, body in ((950, "list", "return [recurse(e) for e in a]"), (951, "object", "return 951")):
        fn, f = make_method({"mid": mid, "pos": [{"n": "a", "t": t}]}, env, vf, [body], tag="c14s", shared_ns=ns, name="g")
        sib.register(fn)
        sfiles.append(f)
    first = (len(ran_plain) + len(spec["methods"])) % 2 == 0
    if first:
        sib.compile()
    fn, f = make_method(walker, env, vf, [f"return tuple(recurse(x_, y_) for x_, y_ in zip({a}, {b}))"], tag="c14", shared_ns=ns)
    files.append(f)
    try:
        o.register(fn)
        o.compile()
    except TypeError:
        forget(sfiles)
        return              # naming rule (positions named differently by the methods of the case)
    if not first:
        sib.compile()
    out0 = outcome(lambda: sib([1, "x", [2.5]]), vf)
    if out0[0] != "ran" or out0[2] != [951, 951, [951]]:
        raise AssertionError(f"sibling function: {out0[:3]}")
    res.count("batches_sibling_built_first" if first else "batches_sibling_built_last")
    xs = tuple(v[0] for v, _ in ran_plain)
    ys = tuple(v[1] for v, _ in ran_plain)
    out = outcome(lambda: o(xs, ys), vf)
    res.ev()
    res.count("calls_repeated_through_recurse", len(ran_plain))
    exp = tuple(m for _, m in ran_plain)
    if out[0] != "ran" or out[2] != exp:
        res.violation("recurse-vs-direct-call", [out[0]], spec,
                      observed={"direct": list(exp), "through_recurse": [str(x) for x in out[:3]], "sibling_built_first": first},
                      acceptable="recurse on the same arguments enters the methods the direct calls entered")
    forget(sfiles)
