from ovld import Ovld, recurse, call_next

def bad(x: float):
    nxt = call_next          # misuse: cannot be rewritten
    return nxt(x)

P = Ovld(name="P")
@P.register
def _(xs: list):
    return [recurse(x) for x in xs]
@P.register
def _(x: object):
    return ("P-object", x)

C = P.copy(linkback=True)
state = {"done": False}
@C.register
def _(x: int):
    if not state["done"]:
        state["done"] = True
        try:
            P.register(bad)          # P itself was never built; its linked copy C is rebuilt and that fails
        except Exception as e:
            state["err"] = type(e).__name__
        P.unregister(bad)
    return ("C-int", x)
@C.register
def _(x: str):
    return ("C-str", x)

got = C([1, "a", 2])
print(state.get("err"), got)
want = [("C-int", 1), ("C-str", "a"), ("C-int", 2)]
print("PASS" if got == want else "FAIL")
