import sys, random, collections
from h import *
def run(seed):
    rng = random.Random(seed)
    classes = gen_hierarchy(rng, rng.randint(2, 6)); pool = classes + [object]
    npos = rng.choice([1, 1, 2])
    params = [f"a{i}" for i in range(npos)]
    specs = []
    seen=set()
    for i in range(rng.randint(2, 7)):
        types = tuple(rng.choice(pool) for _ in range(npos)); prio = rng.choice([0,0,0,1,-1])
        deleg = rng.random() < 0.8
        body = [f"return ({i}, call_next({', '.join(params)}))"] if deleg else [f"return ({i},)"]
        specs.append(dict(mid=i, params=params, anns=dict(zip(params, types)), body=body, prio=prio, deleg=deleg))
    o = build(specs)
    mism = []
    import itertools
    for argtypes in itertools.product(pool, repeat=npos):
        args = [t() for t in argtypes]
        got = outcome(lambda: o(*args))
        chain = got[1]
        # expected chain by differential removal
        remaining = [s["mid"] for s in specs]
        exp = []
        while True:
            ident = [dict(s, body=[f"return ({s['mid']},)"]) for s in specs]
            f = build(ident, only=set(remaining))
            r = outcome(lambda: f(*args))
            if r[0] != "ran": exp_end = r[0]; break
            w = r[1][0]; exp.append(w); remaining.remove(w)
            if not specs[w]["deleg"]: exp_end = "ran"; break
            if not remaining: exp_end = "none"; break
        if (got[0], chain) != (exp_end, tuple(exp)):
            mism.append(([t.__name__ for t in argtypes], got[:2], (exp_end, tuple(exp))))
    return classes, specs, mism
stats = collections.Counter(); exs=[]
for seed in range(int(sys.argv[1])):
    classes, specs, mism = run(seed)
    stats["progs"] += 1; stats["mism_progs"] += bool(mism); stats["mism"] += len(mism)
    if mism and len(exs) < 6:
        exs.append((seed, [(c.__name__, [b.__name__ for b in c.__bases__]) for c in classes], [(s["mid"], [t.__name__ for t in s["anns"].values()], s["prio"], s["deleg"]) for s in specs], mism[:2]))
print(stats)
for e in exs: print(e)
