from ovld import MultiTypeMap
from ovld.core import Signature
nada=frozenset()
def mksig(types, req_pos, max_pos, req_names=nada, vararg=False, priority=0):
    return Signature(types=types, return_type=None, req_pos=req_pos, max_pos=max_pos, req_names=req_names, vararg=vararg, priority=priority)
def get(tm,*key):
    try: return tm[key]
    except KeyError as e: return ("ERR", [c.handler for c in e.args[1]] if len(e.args)>1 else e.args)
tm = MultiTypeMap()
tm.register(mksig((str,int),2,2),"A")
tm.register(mksig((str,int),2,2),"B")
print(get(tm,str,int))
tm.register(mksig((str,int),2,2,priority=5),"C")
print("after C:", get(tm,str,int))
tm2 = MultiTypeMap()
tm2.register(mksig((str,int),2,2),"A")
tm2.register(mksig((str,int),2,2),"B")
tm2.register(mksig((str,int),2,2,priority=5),"C")
print("fresh:", get(tm2,str,int))
