import sys, random, collections, itertools
from typing import Literal
from h import *
import pin
import ovld, ovld.typemap as tm, ovld.mro as mro
from ovld import class_check, Dependent
from ovld.types import parametrized_class_check, Union, Intersection
mon = sys.monitoring; TOOL = 2; E = mon.events
CNT = collections.Counter()
WATCH = {}
def watch(fn, name): WATCH[fn.__code__] = name
watch(tm.MultiTypeMap.__missing__, "MTM.__missing__"); watch(tm.MultiTypeMap.resolve, "MTM.resolve"); watch(tm.MultiTypeMap.mro, "MTM.mro")
watch(tm.TypeMap.__missing__, "TM.__missing__"); watch(mro.sort_types, "sort_types"); watch(mro.typeorder, "typeorder"); watch(mro.subclasscheck, "subclasscheck")
def on_start(code, off):
    n = WATCH.get(code)
    if n is None: return mon.DISABLE
    CNT[n] += 1
mon.use_tool_id(TOOL, "c20"); mon.register_callback(TOOL, E.PY_START, on_start); mon.set_events(TOOL, E.PY_START)
USER = collections.Counter()
def mkpred(name, names):
    def p(cls):
        USER["pred:" + name] += 1
        return cls.__name__ in names
    p.__name__ = name
    return class_check(p)
class HookedMeta(type):
    def __type_order__(cls, other): USER["order"] += 1; return NotImplemented
    def __is_supertype__(cls, other): USER["super"] += 1; return NotImplemented
class H(metaclass=HookedMeta): pass
class H2(H): pass
class A: pass
class B(A): pass
def run(seed):
    rng = random.Random(seed)
    Small = mkpred("Small", {"int", "bool", "B"}); Big = mkpred("Big", {"str", "A", "B", "H2"})
    pool = [Small, Big, H, H2, A, B, int, str, object, Small | int, Big & A]
    dep = [Literal[1], Dependent[int, lambda x: x > 5]]
    npos = rng.choice([1, 2]); params = [f"a{i}" for i in range(npos)]
    specs = []
    for i in range(rng.randint(2, 6)):
        anns = {p: (rng.choice(dep) if rng.random() < 0.15 else rng.choice(pool)) for p in params}
        kind = rng.choice(["leaf", "leaf", "next", "fnext", "rec"])
        argl = ", ".join(params)
        body = {"leaf": [f"return ({i},)"], "next": [f"return ({i}, call_next({argl}))"], "fnext": [f"return ({i}, F.next({argl}))"],
                "rec": [f"return ({i}, recurse({', '.join(['ALT'] * npos)})) if DEPTH.append(0) or len(DEPTH) < 3 else ({i},)"]}[kind]
        specs.append(dict(mid=i, params=params, anns=anns, body=body, prio=rng.choice([0, 0, 1])))
    o = build(specs)
    vals = [1, 7, True, "s", A(), B(), H(), H2(), 2.5]
    SH = []
    def call(args, alt):
        SH.clear()
        for m in o.defns.values(): m.__globals__.update(F=o.dispatch, ALT=alt, DEPTH=SH)
        return outcome(lambda: o(*args))[:2]
    calls = [(tuple(rng.choice(vals) for _ in range(npos)), rng.choice(vals)) for _ in range(12)]
    first = [call(a, alt) for a, alt in calls]
    for a, alt in calls:
        try: o.resolve(*a)
        except TypeError: pass
    order = list(range(len(calls))); rng.shuffle(order)
    second = {}; bad = []
    for i in order:
        CNT.clear(); USER.clear()
        second[i] = call(*calls[i])
        if first[i][0] == "ran":
            try: o.resolve(*calls[i][0])
            except TypeError: pass
            if CNT or USER: bad.append((i, dict(CNT), dict(USER), first[i]))
    CNT.clear(); USER.clear()
    for b in bad: CNT.update(b[1]); USER.update(b[2])
    ok_same = all(second[i] == first[i] for i in order)
    # calls whose first outcome was an error may legitimately recompute? (statement: 'successfully handled')
    failing = []
    return dict(CNT), dict(USER), ok_same, len(failing), specs
agg = collections.Counter(); ex = []
for seed in range(int(sys.argv[1])):
    c, u, same, nfail, specs = run(seed)
    agg["progs"] += 1; agg["same"] += same
    if c or u:
        agg["recomputed_progs"] += 1
        agg["recomputed_with_failing_calls"] += bool(nfail)
        if not nfail and len(ex) < 4: ex.append((seed, c, u, [(s["mid"], {k: str(v) for k, v in s["anns"].items()}, s["body"][0][:35]) for s in specs]))
print(agg)
for e in ex: print(e)
