"""./check driver: shards a property's run over sub-processes, aggregates, classifies against the
committed known findings, writes evidence, prints the verdict lines, sets the exit code.

exit 0  held on everything explored (possibly with KNOWN-FINDING lines)
exit 1  at least one violation no known finding accounts for  (VIOLATION lines)
exit 2  inconclusive (a shard died / timed out / a deciding monitor was not reached)
"""
import collections
import hashlib
import importlib
import json
import os
import shutil
import subprocess
import sys
import tempfile
import time

HERE = os.path.dirname(os.path.dirname(os.path.abspath(__file__)))
# self-validation runs against scratch mutants write their evidence / replays elsewhere
OUT = os.environ.get("VF_OUT") or HERE
PY = sys.executable


def _mod(prop):
    from . import boot  # noqa: F401
    return importlib.import_module(f"vf.props.{prop.lower()}")


def selftest():
    ok = True
    if sys.version_info < (3, 12):
        print("selftest: need python >= 3.12 for sys.monitoring")
        ok = False
    from . import boot
    print(f"selftest: ovld from {boot.ovld.__file__}; hooks={'on' if boot.HOOKS else 'absent'}")
    if not boot.HOOKS:
        print("selftest: OVLD_VERIF hooks not active (checks fall back to monkeypatch pinning)")
    import sys as _s
    for tid in (3, 4):
        name = _s.monitoring.get_tool(tid)
        if name is not None:
            print(f"selftest: sys.monitoring tool id {tid} in use by {name}")
            ok = False
    from .findings import load
    load()
    print("selftest:", "ok" if ok else "FAILED")
    return 0 if ok else 2


def replay(prop, path):
    from . import boot  # noqa: F401
    from .result import Result
    mod = _mod(prop)
    with open(path) as f:
        w = json.load(f)
    res = Result(prop)
    if hasattr(mod, "setup"):
        mod.setup(res)
    res.case_ref = ("replay", os.path.basename(path))
    mod.check_case(w["spec"], res)
    from .findings import is_open
    new = [v for v in res.violations if not (v["finding"] and is_open(v["finding"], prop))]
    for v in res.violations:
        print("replay:", v["monitor"], "finding=" + str(v["finding"]),
              "observed=" + json.dumps(v["observed"])[:300],
              "acceptable=" + json.dumps(v["acceptable"])[:300])
    if new:
        print(f"VIOLATION property={prop} replay={path}")
        return 1
    print(f"replay: no new violation of {prop} on this tree")
    return 0


def run(prop, tier):
    t0 = time.time()
    seed = int(os.environ.get("VERIF_SEED", "0"))
    tier = os.environ.get("VERIF_TIER", tier) if tier not in ("quick", "thorough") else tier
    jobs = int(os.environ.get("VERIF_JOBS", str(min(16, os.cpu_count() or 4))))
    mod = _mod(prop)
    plan = mod.plan(tier)
    nshards = min(jobs, max(1, plan["cases"]))
    timeout = plan.get("timeout_s", 900)
    tmp = tempfile.mkdtemp(prefix=f"vf-{prop}-")
    env = dict(os.environ)
    env.setdefault("PYTHONHASHSEED", "0")
    env["PYTHONDONTWRITEBYTECODE"] = "1"
    env["OVLD_VERIF"] = "1"
    env["VF_TIER"] = tier
    env["VF_NSHARDS"] = str(nshards)
    procs = []
    shards = [-1] + list(range(nshards))
    for sh in shards:
        out = os.path.join(tmp, f"s{sh}.json")
        log = open(os.path.join(tmp, f"s{sh}.log"), "w")
        p = subprocess.Popen([PY, "-m", "vf.worker", prop, tier, str(seed), str(sh), str(nshards), out],
                             cwd=HERE, env=env, stdout=log, stderr=subprocess.STDOUT)
        procs.append((sh, p, out, log))
    inconclusive = []
    results = []
    deadline = time.time() + timeout
    for sh, p, out, log in procs:
        try:
            rc = p.wait(timeout=max(1, deadline - time.time()))
        except subprocess.TimeoutExpired:
            p.kill()
            p.wait()
            inconclusive.append(f"shard {sh} exceeded the {timeout}s watchdog")
            continue
        finally:
            log.close()
        if rc != 0 or not os.path.exists(out):
            tail = open(os.path.join(tmp, f"s{sh}.log")).read()[-1200:]
            inconclusive.append(f"shard {sh} exited with {rc}: {tail}")
            continue
        with open(out) as f:
            results.append((sh, json.load(f)))
    code = aggregate(prop, tier, seed, mod, plan, results, inconclusive, t0)
    shutil.rmtree(tmp, ignore_errors=True)
    return code


def aggregate(prop, tier, seed, mod, plan, results, inconclusive, t0):
    from .findings import load
    findings = [f for f in load() if prop in f["properties"]]
    open_ids = {f["id"] for f in findings if f["status"] == "open"}
    evaluations = 0
    distinct = set()
    counters = collections.Counter()
    samples, violations, cross, herr = [], [], [], []
    known = collections.Counter()
    known_samples = {}
    unspec = 0
    for sh, r in results:
        evaluations += r["evaluations"]
        distinct.update(r["distinct"])
        counters.update(r["counters"])
        for s in r["samples"]:
            if len(samples) < 5 and all(x["stratum"] != s["stratum"] for x in samples):
                samples.append(s)
        violations += r["violations"]
        known.update(r["known"])
        for k, v in r["known_samples"].items():
            known_samples.setdefault(k, v)
        unspec += r["unspec"]
        cross += r["cross"]
        herr += r["harness_errors"]
    if herr:
        inconclusive.append(f"{len(herr)} harness error(s); first: {json.dumps(herr[0])[:1500]}")
    for name, need in (plan.get("min") or {}).items():
        have = evaluations if name == "evaluations" else (len(distinct) if name == "distinct" else counters.get(name, 0))
        if have < need:
            inconclusive.append(f"monitor reach too low: {name}={have} < {need}")

    new, seen = [], set()
    for v in violations:
        if v["finding"] and v["finding"] in open_ids:
            continue
        if v["signature"] in seen:
            continue
        seen.add(v["signature"])
        new.append(v)

    # evidence
    os.makedirs(os.path.join(OUT, "evidence"), exist_ok=True)
    cov = {
        "evaluations": int(evaluations),
        "distinct_nontrivial": len(distinct),
        "rule": mod.RULE,
        "samples": samples or [{"stratum": "none", "case": "no sample recorded"}],
        "exhaustive": bool(plan.get("exhaustive", False)),
        "cases_planned": plan["cases"],
        "monitor_counters": {k: int(v) for k, v in sorted(counters.items())},
        "unspecified_skipped": int(unspec),
        "known_findings_observed": {k: int(v) for k, v in sorted(known.items())},
        "known_finding_samples": known_samples,
        "cross_alarms": cross[:10],
        "minimum_observations": plan.get("min") or {},
        "inconclusive_reasons": inconclusive,
        "new_violation_signatures": [v["signature"][:300] for v in new[:10]],
        "ovld_src": os.environ.get("OVLD_SRC", "/repo/src"),
    }
    if hasattr(mod, "extra_coverage"):
        cov.update(mod.extra_coverage(counters))
    ev = {
        "property_id": prop, "tier": tier, "seed": seed, "level": mod.LEVEL,
        "coverage": cov, "assumptions": list(mod.ASSUMPTIONS),
        "wall_s": round(time.time() - t0, 2), "violations": len(new),
    }
    with open(os.path.join(OUT, "evidence", f"{prop}.json"), "w") as f:
        json.dump(ev, f, indent=1, sort_keys=True)
        f.write("\n")

    print(f"{prop} {tier} seed={seed}: evaluations={evaluations} distinct_nontrivial={len(distinct)} "
          f"unspecified_skipped={unspec} wall={ev['wall_s']}s")
    keys = getattr(mod, "REPORT_COUNTERS", None) or sorted(counters)[:12]
    print("  observed: " + ", ".join(f"{k}={counters.get(k, 0)}" for k in keys))
    for f_ in findings:
        if f_["status"] == "open":
            fires = counters.get(f"witness_{f_['id']}_fires", 0)
            silent = counters.get(f"witness_{f_['id']}_silent", 0)
            extra = ""
            if silent and not fires:
                extra = " [committed witness did not fail on this tree]"
            print(f"KNOWN-FINDING: property={prop} {f_['id']} {f_['what']} "
                  f"(observed {known.get(f_['id'], 0)} times this run){extra}")
    if new:
        rdir = os.path.join(OUT, "replays", prop)
        os.makedirs(rdir, exist_ok=True)
        for v in new[:10]:
            name = hashlib.sha1(v["signature"].encode()).hexdigest()[:12] + ".json"
            path = os.path.join(rdir, name)
            with open(path, "w") as f:
                json.dump({**v, "seed": seed, "tier": tier}, f, indent=1)
            print(f"  monitor={v['monitor']} finding={v['finding']} observed={json.dumps(v['observed'])[:200]} "
                  f"acceptable={json.dumps(v['acceptable'])[:200]}")
            print(f"VIOLATION property={prop} replay={os.path.relpath(path, OUT) if OUT == HERE else path}")
        return 1
    if inconclusive:
        for r in inconclusive:
            print(f"INCONCLUSIVE property={prop} {r[:1600]}")
        return 2
    print(f"{prop}: held on everything explored")
    return 0


def main(argv):
    if argv and argv[0] == "--selftest":
        return selftest()
    if len(argv) >= 3 and argv[1] == "--replay":
        return replay(argv[0], argv[2])
    if len(argv) == 2:
        return run(argv[0], argv[1])
    print(__doc__)
    print("usage: ./check <ID> <quick|thorough> | ./check <ID> --replay <path> | ./check --selftest")
    return 2


if __name__ == "__main__":
    try:
        code = main(sys.argv[1:])
    except SystemExit:
        raise
    except BaseException:  # noqa: BLE001  (the harness or the library failed to load)
        import traceback
        tb = traceback.format_exc()
        print("INCONCLUSIVE driver failed before a verdict: " + tb[-1500:].replace("\n", " | "))
        code = 2
    sys.exit(code)
