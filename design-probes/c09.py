import sys, random, collections, itertools, linecache, traceback
import pin
import ovld
from ovld import Ovld
TR = []
def tick(n, v): TR.append(n); return v
cnt = itertools.count()
# contexts: templates with {R} = callee name (recurse / call_next), E1,E2 = argument exprs
CTX = {
 "plain": "return {R}({A})",
 "nested": "return {R}(tick('o', {R}({A})[1]))",
 "listcomp-elt": "return [{R}(e) for e in tick('it', x)]",
 "listcomp-cond": "return [e for e in x if {R}(e)]",
 "listcomp-iter": "return [y for y in {R}(x[0])]",
 "genexp": "return list({R}(e) for e in x)",
 "dictcomp": "return {{e: {R}(e) for e in x}}",
 "lambda": "return (lambda q: {R}(q))(x[0])",
 "lambda-default": "return (lambda q={R}(x[0]): q)()",
 "nested-def": "def inner(z):\n        return {R}(z)\n    return inner(x[0])",
 "ifexp": "return {R}(x[0]) if tick('c', True) else {R}(x[1])",
 "boolop": "return tick('l', 0) or {R}(x[0])",
 "fstring": "return f'{{{R}(x[0])!r:>12}}'",
 "kw": "return {R}(tick(1, x[0]), k=tick(2, x[1]))",
 "star": "return {R}(*tick('s', x[:1]))",
 "dstar": "return {R}(x[0], **tick('d', {{'k': x[1]}}))",
 "walrus": "return (w := {R}(x[0])) and w",
 "tryfin": "try:\n        return {R}(x[0])\n    finally:\n        tick('f', 0)",
 "gen": "yield {R}(x[0])\n    yield {R}(x[1])",
 "argorder": "return {R}(tick(1, x[0]), tick(2, x[1]))",
 "closure": "return {R}(x[0] + FREE)",
 "raise-in-arg": "return {R}(tick('a', x[0]), 1 // tick('z', 0))",
 "multiline": "return {R}(\n        tick(1, x[0]),\n        tick(2, x[1]),\n    )",
 "attr": "return {R}(x[0]).__class__.__name__",
 "subscript": "return {R}(x[0])[0]",
 "with": "with CM():\n        return {R}(x[0])",
 "twice": "return ({R}(x[0]), {R}(x[1]))",
 "default-arg": None,
}
class CM:
    def __enter__(self): tick("enter", 0)
    def __exit__(self, *a): tick("exit", 0)
def outcome(fn):
    TR.clear()
    try:
        r = fn()
        if hasattr(r, "__next__"): r = list(r)
        return ("ok", repr(r), tuple(TR), None)
    except Exception as e:
        tb = [(f.filename, f.lineno) for f in traceback.extract_tb(e.__traceback__) if f.filename.startswith("<vb:")]
        kind = "dispatch" if isinstance(e, TypeError) and ("No method" in str(e) or "Ambiguous" in str(e)) else type(e).__name__
        return ("exc", kind, tuple(TR), tuple(tb))
def run(ctxname, callee, use_closure):
    body = CTX[ctxname]
    if body is None: return None
    body = body.format(R=callee, A="x[0]")
    kd = ", kd=7" if ctxname == "closure" else ""
    src = f"def walker(x: list, d=5, *{kd if kd else ', kd=7'}):\n    {body}\n".replace("*, kd", "*, kd")
    src = f"def walker(x: list):\n    {body}\n"
    if use_closure:
        src = "def factory(FREE):\n" + "".join("    " + l + "\n" for l in src.splitlines()) + "    return walker\nwalker = factory(10)\n"
    fname = f"<vb:{next(cnt)}>"; linecache.cache[fname] = (len(src), None, src.splitlines(True), fname)
    def load(bind):
        ns = {"tick": tick, "CM": CM, "FREE": 10, **bind}
        exec(compile(src, fname, "exec"), ns); return ns["walker"]
    # ovld side
    o = Ovld()
    w = load({"recurse": ovld.recurse, "call_next": ovld.call_next})
    try:
        o.register(w)
        for f2 in BASE: o.register(f2)
        o.compile()
    except Exception as e:
        return ("BUILD", type(e).__name__, str(e)[:70])
    # reference side: same source, plain callables
    nxt = lambda *a, **k: ("obj", a[0])         # next after walker(list) is the object method
    ref = load({"recurse": (lambda *a, **k: o.dispatch(*a, **k)), "call_next": nxt})
    arg = [3, 4]
    got = outcome(lambda: o(arg)); exp = outcome(lambda: ref(arg))
    if callee == "call_next":
        pass
    return got, exp
def mk_base():
    src = "def b_int(x: int):\n    return ('int', x)\ndef b_int2(x: int, y: int):\n    return ('int2', x, y)\ndef b_intk(x: int, *, k: int):\n    return ('intk', x, k)\ndef b_obj(x: object):\n    return ('obj', x)\n"
    ns = {}; exec(src, ns); return [ns["b_int"], ns["b_int2"], ns["b_intk"], ns["b_obj"]]
BASE = mk_base()
for callee in ("recurse", "call_next"):
    for closure in (False, True):
        for name in CTX:
            if name == "closure" and not closure: continue
            r = run(name, callee, closure)
            if r is None: continue
            if r[0] == "BUILD": print(f"{callee:9} closure={closure!s:5} {name:15} BUILD-FAIL {r[1:]}"); continue
            got, exp = r
            same = got[:3] == exp[:3] and (got[3] == exp[3])
            if not same: print(f"{callee:9} closure={closure!s:5} {name:15} DIFF got={got} exp={exp}")
print("done")
