"""Per-shard result accumulator handed to every property's check_case()."""
import collections
import hashlib
import json


def jsonable(x):
    if isinstance(x, (str, int, float, bool)) or x is None:
        return x
    if isinstance(x, (list, tuple)):
        return [jsonable(y) for y in x]
    if isinstance(x, dict):
        return {str(k): jsonable(v) for k, v in x.items()}
    if isinstance(x, (set, frozenset)):
        return sorted((jsonable(y) for y in x), key=repr)
    return repr(x)[:120]


def h48(obj):
    s = json.dumps(jsonable(obj), sort_keys=True, default=repr)
    return int.from_bytes(hashlib.sha1(s.encode()).digest()[:6], "big")


class Result:
    MAX_VIOL_PER_SIG = 3

    def __init__(self, prop):
        self.prop = prop
        self.evaluations = 0
        self.distinct = set()
        self.counters = collections.Counter()
        self.samples = []
        self.violations = []          # dicts
        self._sig_count = collections.Counter()
        self.known = collections.Counter()   # finding id -> observations
        self.known_samples = {}
        self.unspec = 0
        self.cross = []
        self.harness_errors = []
        self.case_ref = None           # (seed, idx) of the case being checked

    # -- counting ---------------------------------------------------------------------------
    def ev(self, n=1):
        self.evaluations += n

    def nontrivial(self, key):
        self.distinct.add(h48(key))

    def count(self, name, n=1):
        self.counters[name] += n

    def sample(self, spec, stratum="default", cap=4):
        if len(self.samples) < cap and all(s.get("stratum") != stratum for s in self.samples):
            self.samples.append({"stratum": stratum, "case": jsonable(spec)})

    def skip_unspec(self, n=1):
        self.unspec += n

    # -- alarms -----------------------------------------------------------------------------
    def violation(self, monitor, signature, spec, observed=None, acceptable=None,
                  finding=None, note=None, prop=None):
        """Record an oracle failure.

        signature: mechanism-level key used for de-duplication (never random values).
        finding:   id of the known finding whose *defect model* predicts exactly this
                   observation, or None."""
        prop = prop or self.prop
        if prop != self.prop:
            if len(self.cross) < 20:
                self.cross.append({"property": prop, "monitor": monitor,
                                   "signature": jsonable(signature), "finding": finding,
                                   "observed": jsonable(observed)})
            self.counters[f"cross_alarm_{prop}"] += 1
            return
        if finding is not None:
            self.known[finding] += 1
            if finding not in self.known_samples:
                self.known_samples[finding] = {
                    "monitor": monitor, "spec": jsonable(spec),
                    "observed": jsonable(observed), "acceptable": jsonable(acceptable)}
        sig = json.dumps(jsonable([monitor, signature]), sort_keys=True)
        self._sig_count[(sig, finding)] += 1
        if self._sig_count[(sig, finding)] > (1 if finding else self.MAX_VIOL_PER_SIG):
            return
        if finding is not None and sum(1 for v in self.violations if v["finding"] == finding) >= 3:
            return
        self.violations.append({
            "property": prop, "monitor": monitor, "signature": sig, "finding": finding,
            "case": list(self.case_ref) if self.case_ref else None,
            "spec": jsonable(spec), "observed": jsonable(observed),
            "acceptable": jsonable(acceptable), "note": note,
        })

    def dump(self):
        return {
            "prop": self.prop,
            "evaluations": self.evaluations,
            "distinct": sorted(self.distinct),
            "counters": dict(self.counters),
            "samples": self.samples,
            "violations": self.violations,
            "known": dict(self.known),
            "known_samples": self.known_samples,
            "unspec": self.unspec,
            "cross": self.cross,
            "harness_errors": self.harness_errors[:5],
        }
