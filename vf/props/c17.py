"""C17 - overloaded methods in classes merge per class and inherit without leaking.

Workload: class *source text* (OvldBase / metaclass=OvldMC roots, plain mixin classes, multiple bases,
create_subclass) with same-named definitions of two method names (f, g), optional @extend_super on the
first definition, leaf / list-walker (recurse) / delegating (call_next) bodies.

Monitor: after **every** class statement, every method name is called on an instance of **every**
class defined so far with every corpus value; the result (method ids, the ``self`` object received,
error kind) is compared with a class-body reference model:
  * several same-named definitions in one body -> one dispatching method over exactly those;
  * first definition marked extend_super -> the overloads of *all* bases (in base order, later bases and
    then own definitions replacing identical signatures) plus own;
  * a name defined once without extend_super is an ordinary Python function (shadows, no dispatch);
  * a class defining nothing inherits by plain attribute lookup (UNSPEC when more than one base has it);
because the model of an older class never changes, "bases and siblings keep exactly their previous
behaviour" is the same comparison repeated after each later class statement.
Half of the hierarchies are spread over two module namespaces, and after the last class statement one more definition
is registered (``K.f.register``) on the overloaded method of a class without descendants: that class must dispatch over
it as well (also from its recurse / call_next sites, whichever module they were defined in), every other class as before.
"""
from .. import boot  # noqa: F401
from ..methods import load_source, forget
from ..observe import VF, outcome, pin

import ovld
from ovld import OvldBase, OvldMC, extend_super

ID = "C17"
LEVEL = "exploration"
RULE = ("cases = random class hierarchies (2-7 classes, depth <= 4, multiple bases, plain mixin classes, "
        "OvldBase or metaclass=OvldMC roots, create_subclass) x per class 0-3 same-named definitions for each of two "
        "method names, extend_super on the first definition with p=0.7 (on a later one with p=0.04); every class is "
        "probed with 12 values (instances, classes, lists of both) after every class statement; distinct_nontrivial = distinct hierarchies (shape + "
        "definition placement) having multiple inheritance and an extend_super over >= 2 bases that define the name")
ASSUMPTIONS = [
    "parameter types are builtin classes in single-inheritance chains (bool < int < object), so the model's resolution is unambiguous",
    "a class that defines nothing and inherits the name from more than one base is unspecified (plain MRO vs merged)",
    "extend_super placed on a definition that is not the first of its name in the class body is finding F20, not the model",
]
REPORT_COUNTERS = ["hierarchies", "class_statements", "probes", "extend_super_2bases", "plain_single_def",
                   "create_subclass", "self_identity_checked", "call_next_sites", "recurse_sites", "mc_roots", "f21_region_probes",
                   "marked_mixins_merged_by_empty_class", "late_registrations", "late_registrations_across_modules"]

TYPES = ["int", "str", "float", "bytes", "list", "bool", "object", "type[int]", "type[object]", "EVEN", "GE3"]
DEP = {"EVEN": lambda v: v % 2 == 0, "GE3": lambda v: v >= 3}      # value conditions over int (names bound in the case's globals)
PY = {"int": int, "str": str, "float": float, "bytes": bytes, "list": list, "bool": bool, "object": object}
# classes are passed as arguments too; 2 and 3 satisfy exactly one of the two value conditions, 1 and True neither
CORPUS = [1, "s", 2.5, b"b", [1, "s"], True, None, int, bool, [bool, "s", str], 2, 3]


def _app(t, v):
    if t in DEP:
        return isinstance(v, int) and bool(DEP[t](v))
    if t.startswith("type["):
        return isinstance(v, type) and issubclass(v, PY[t[5:-1]])
    return isinstance(v, PY[t])


def _rank(t, v):
    """specificity of an applicable type for v: type[X] is narrower than every plain class a class object is an
    instance of (object); among type[...] the closer base wins"""
    if t in DEP:
        return 200          # a value-dependent type is narrower than its bound and the bound's subclasses
    if t.startswith("type["):
        return 100 + len(v.__mro__) - v.__mro__.index(PY[t[5:-1]])
    return len(type(v).__mro__) - type(v).__mro__.index(PY[t])
NAMES = ["f", "g"]


def plan(tier):
    n = 12000 if tier == "quick" else 120000
    return {"cases": n, "params": {}, "timeout_s": 900 if tier == "quick" else 3600,
            "min": {"probes": 50_000, "extend_super_2bases": 200, "self_identity_checked": 10_000,
                    "call_next_sites": 500, "recurse_sites": 500,
                    "marked_mixins_merged_by_empty_class": 100, "late_registrations_across_modules": 300}}


# ------------------------------------------------------------------------------------------- generation
def _gen_mixin_assembly(rng):
    """an overloading root, plain mixin classes with marked definitions, pass-through subclasses of any of them,
    and a class that combines them (empty body / create_subclass / marked own definition)"""
    tys = list(TYPES)
    rng.shuffle(tys)
    mid = 0
    classes = []

    def mk(name, bases, root, ovldcls, defs, create=False):
        classes.append({"name": name, "bases": bases, "root": root, "ovldcls": ovldcls, "defs": defs, "create": create})
        return len(classes) - 1

    def d(nm, t, ext):
        nonlocal mid
        kind = "walk" if t == "list" else rng.choice(["leaf", "leaf", "next"])
        mid += 1
        return {"mid": mid - 1, "name": nm, "t": t, "ext": ext, "kind": kind}

    nroot = rng.choice([1, 2, 2])
    root = mk("K0", [], rng.choice(["base", "mc"]), True, [d("f", tys.pop(), False) for _ in range(nroot)])
    branches = [root]
    for i in range(rng.choice([1, 2, 2])):
        defs = [d("f", tys.pop(), True)]
        if rng.random() < 0.3:
            defs.append(d("g", rng.choice(TYPES), True))
        branches.append(mk(f"K{len(classes)}", [], "plain", False, defs))
    tops = []
    for b in branches:
        t = b
        for _ in range(rng.choice([0, 1, 1, 2])):      # pass-through subclasses that define nothing
            t = mk(f"K{len(classes)}", [t], None, classes[t]["ovldcls"], [])
        tops.append(t)
    how = rng.choice(["empty", "empty", "create", "own"])
    if how == "create":
        comb = mk(f"K{len(classes)}", tops, None, True, [], create=True)
    elif how == "own" and tys:
        comb = mk(f"K{len(classes)}", tops, None, True, [d("f", tys.pop(), True)])
    else:
        comb = mk(f"K{len(classes)}", tops, None, True, [])
    if rng.random() < 0.5:
        mk(f"K{len(classes)}", [comb], None, True, [])
    return {"classes": classes}


def gen_case(rng, params, idx):
    if idx % 6 == 5:
        return _gen_mixin_assembly(rng)
    classes = []
    mid = 0
    for i in range(rng.randint(2, 7)):
        name = f"K{i}"
        kindroot = None
        nb = rng.choice([0, 1, 1, 1, 2, 2, 3]) if classes else 0
        bases = sorted(rng.sample(range(len(classes)), min(nb, len(classes))), reverse=True)

        def ancs(ci):
            r = set()
            for b in classes[ci]["bases"]:
                r |= {b} | ancs(b)
            return r
        bases = [b for b in bases if not any(b in ancs(o) for o in bases if o != b)]
        if bases:
            try:   # C3 feasibility, checked on plain stand-ins
                shadow = {}
                OB = type("OB", (), {})      # stands for OvldBase, the common base of every root written `class K(OvldBase)`
                for k, cc in enumerate(classes):
                    root = (OB,) if cc["root"] == "base" else (object,)
                    shadow[k] = type(cc["name"], tuple(shadow[b] for b in cc["bases"]) or root, {})
                type(name, tuple(shadow[b] for b in bases), {})
            except TypeError:
                bases = bases[:1]
        if not bases:
            kindroot = rng.choice(["base", "base", "mc", "plain"])
            ovldcls = kindroot != "plain"
        else:
            ovldcls = any(classes[b]["ovldcls"] for b in bases)
            # an overloading class must come first or the metaclass is still derived correctly; keep order
        defs = []
        use_create = False
        if ovldcls and bases and rng.random() < 0.08 and classes[bases[0]]["ovldcls"]:
            use_create = True
        if not use_create:
            for nm in NAMES:
                k = rng.choice([0, 0, 1, 1, 2, 3]) if nm == "f" else rng.choice([0, 0, 0, 1, 2])
                tys = rng.sample(TYPES, k)
                for j, t in enumerate(tys):
                    ext = False
                    if ovldcls and bases:
                        if j == 0:
                            ext = rng.random() < 0.7
                        else:
                            ext = rng.random() < 0.04
                    elif not ovldcls:
                        # a mixin class without the metaclass whose definition is marked: it extends whatever the
                        # class it is later mixed into inherits from its other bases
                        ext = rng.random() < 0.6
                    kind = "walk" if t == "list" else rng.choice(["leaf", "leaf", "leaf", "next"])
                    defs.append({"mid": mid, "name": nm, "t": t, "ext": ext, "kind": kind, "po": rng.random() < 0.15})
                    mid += 1
        classes.append({"name": name, "bases": bases, "root": kindroot, "ovldcls": ovldcls, "defs": defs,
                        "create": use_create})
    spec = {"classes": classes}
    if idx % 2 == 0:
        # the hierarchy is spread over two modules (a library's base classes extended elsewhere), and once everything
        # has been used, one more definition is registered on the overloaded method of one class
        spec["modules"] = [rng.randint(0, 1) for _ in classes]
        spec["late"] = {"nm": rng.choice(NAMES), "t": rng.choice(TYPES), "mod": rng.randint(0, 1), "pick": rng.random(),
                        "kind": rng.choice(["leaf", "leaf", "next"])}
    return spec


def class_source(c, classes):
    if c["create"]:
        return None
    if c["bases"]:
        basestr = ", ".join(classes[b]["name"] for b in c["bases"])
    else:
        basestr = {"base": "OvldBase", "mc": "metaclass=OvldMC", "plain": ""}[c["root"]]
    body = []
    for d in c["defs"]:
        if d["ext"]:
            body.append("    @extend_super")
        # some definitions make the receiver and the argument positional-only: def f(self, x: T, /)
        body.append(f"    def {d['name']}(self, x: {d['t']}{', /' if d.get('po') else ''}):")
        body.append(f"        VF_.enter({d["mid"]}, locals())")
        if d["kind"] == "walk":
            body.append(f"        return ['L{d['mid']}', self] + [recurse(e) for e in x]")
        elif d["kind"] == "next":
            body.append(f"        return ('n', {d['mid']}, self, call_next(x))")
        else:
            body.append(f"        return ('m', {d['mid']}, self)")
    if not body:
        body = ["    pass"]
    return f"class {c['name']}({basestr}):\n" + "\n".join(body) + "\n"


# ------------------------------------------------------------------------------------------- model
UNSPEC = "UNSPEC"


class Model:
    def __init__(self, classes):
        self.classes = classes
        self.taint = set()   # (class index, name) whose real behaviour is affected by a known finding
        self.kind = {}
        for c in classes:
            for d in c["defs"]:
                self.kind[d["mid"]] = d

    def eff(self, ci, nm):
        """None | ("plain", mid) | ("table", {t: mid}) | UNSPEC | "F20" """
        c = self.classes[ci]
        own = [d for d in c["defs"] if d["name"] == nm]
        if any((b, nm) in self.taint for b in c["bases"]) and not (own and not own[0]["ext"] and len(own) == 1):
            return UNSPEC
        if own:
            if not c["ovldcls"]:
                # ordinary class body: the last definition wins; a marked one is an overloaded function of its own
                if own[-1]["ext"]:
                    return ("table", {own[-1]["t"]: own[-1]["mid"]})
                return ("plain", own[-1]["mid"])
            if any(d["ext"] for d in own[1:]):
                return "F20"
            if not own[0]["ext"]:
                # OvldMC.__prepare__ pre-merges a name that several bases provide when a later base's
                # version was itself created by extend_super; what own unmarked definitions then mean
                # (shadow vs. join the merge) is fixed neither by the statement nor by the docs
                live = [b for b in c["bases"] if self.eff(b, nm) is not None]
                if len(live) > 1:
                    return UNSPEC
            if len(own) == 1 and not own[0]["ext"]:
                return ("plain", own[0]["mid"])
            tab = {}
            if own[0]["ext"]:
                for b in c["bases"]:
                    e = self.eff(b, nm)
                    if e in (UNSPEC, "F20"):
                        return e
                    if e is None:
                        continue
                    if e[0] == "plain":
                        tab[self.kind[e[1]]["t"]] = e[1]
                    else:
                        tab.update(e[1])
            for d in own:
                tab[d["t"]] = d["mid"]
            return ("table", tab)
        live, live_b = [], []
        for b in c["bases"]:
            e = self.eff(b, nm)
            if e is not None:
                live.append(e)
                live_b.append(b)
        if not live:
            return None
        if len(live) > 1:
            # a class of the metaclass that combines an overloaded method with *marked mixins* (every later base
            # providing the name is a plain mixin class whose definition carries extend_super) dispatches over all
            # of them - the documented mixin use (One.create_subclass(M1, M2) / class Four(Two, Three): pass)
            if c["ovldcls"] and all(self.marked(b, nm) for b in live_b[1:]):
                if live[0] in (UNSPEC, "F20"):
                    return live[0]
                if live[0][0] != "table":
                    return UNSPEC
                tab = dict(live[0][1])
                for e in live[1:]:
                    if set(e[1]) & set(tab):
                        return UNSPEC       # identical signatures on both sides: who replaces whom is not stated
                    tab.update(e[1])
                return ("table", tab)
            return UNSPEC
        return live[0]

    def marked(self, b, nm):
        """the attribute found on class b is the marked overloaded function of a plain mixin class"""
        cb = self.classes[b]
        own = [d for d in cb["defs"] if d["name"] == nm]
        if cb["ovldcls"]:
            return False
        if own:
            return bool(own[-1]["ext"])
        liveb = [x for x in cb["bases"] if self.eff(x, nm) is not None]
        return len(liveb) == 1 and self.marked(liveb[0], nm)

    def merged_mixins(self, ci, nm):
        c = self.classes[ci]
        if any(d["name"] == nm for d in c["defs"]) or not c["ovldcls"]:
            return False
        live_b = [b for b in c["bases"] if self.eff(b, nm) is not None]
        e = self.eff(ci, nm)
        return len(live_b) > 1 and e not in (UNSPEC, "F20", None)

    def n_ext_bases(self, ci, nm):
        c = self.classes[ci]
        own = [d for d in c["defs"] if d["name"] == nm]
        if own and own[0]["ext"]:
            return sum(1 for b in c["bases"] if self.eff(b, nm) not in (None,))
        return 0

    def expected(self, ci, nm, v, inst):
        e = self.eff(ci, nm)
        if e in (UNSPEC, "F20"):
            return e
        if e is None:
            return ("noattr",)
        try:
            return ("ok", self._run(e, v, inst))
        except LookupError:
            return ("none",)

    def expected_from(self, e, v, inst):
        try:
            return ("ok", self._run(e, v, inst))
        except LookupError:
            return ("none",)

    def _run(self, e, v, inst, below=None):
        if e[0] == "plain":
            d = self.kind[e[1]]
            if d["kind"] == "next":
                # call_next in a function that is not registered in an ovld raises UsageError
                raise _Usage()
            if d["kind"] == "walk":
                try:
                    it = list(v)
                except TypeError:
                    raise _BodyErr()
                raise _Usage()
            return ("m", d["mid"], inst)
        tab = e[1]
        app = [(_rank(t, v), m) for t, m in tab.items() if _app(t, v)]
        app.sort(reverse=True)
        if below is not None:
            app = [a for a in app if a[0] < below]
        if not app:
            raise LookupError
        rank, mid = app[0]
        d = self.kind[mid]
        if d["kind"] == "leaf":
            return ("m", mid, inst)
        if d["kind"] == "walk":
            return [f"L{mid}", inst] + [self._run(e, x, inst) for x in v]
        if d["kind"] == "next":
            return ("n", mid, inst, self._run(e, v, inst, below=rank))
        raise ValueError(d)


class _Usage(Exception):
    pass


class _BodyErr(Exception):
    pass


# ------------------------------------------------------------------------------------------- check
def check_case(spec, res):
    pin()
    vf = VF()
    classes = spec["classes"]
    model = Model(classes)
    ns = {"VF_": vf, "OvldBase": OvldBase, "OvldMC": OvldMC, "extend_super": extend_super,
          "recurse": ovld.recurse, "call_next": ovld.call_next,
          "EVEN": ovld.Dependent[int, DEP["EVEN"]], "GE3": ovld.Dependent[int, DEP["GE3"]]}
    ns2 = dict(ns)
    ns2["__name__"] = "vfcase2"
    mods = spec.get("modules") or [0] * len(classes)
    files = []
    res.count("hierarchies")
    res.sample(spec)
    has_mi = any(len(c["bases"]) > 1 for c in classes)
    ext2 = False
    built = []
    def probe_all(model, classes, ci, c):
        for cj in list(built):
            cls = ns[classes[cj]["name"]]
            for nm in NAMES:
                e = model.eff(cj, nm)
                if e is not None and e not in (UNSPEC, "F20") and e[0] == "plain" and cj == ci:
                    res.count("plain_single_def")
                for v in CORPUS:
                    inst = cls()
                    res.ev()
                    res.count("probes")
                    try:
                        exp = model.expected(cj, nm, v, inst)
                    except _Usage:
                        exp = ("usage",)
                    except _BodyErr:
                        exp = ("bodyerr",)
                    if exp == UNSPEC:
                        res.skip_unspec()
                        continue
                    if not hasattr(inst, nm):
                        got = ("noattr",)
                    else:
                        out = outcome(lambda: getattr(inst, nm)(v), vf)
                        if out[0] == "ran":
                            got = ("ok", out[2])
                            res.count("self_identity_checked")
                            res.count("call_next_sites", sum(1 for m in out[1] if model.kind[m]["kind"] == "next"))
                            res.count("recurse_sites", sum(1 for m in out[1] if model.kind[m]["kind"] == "walk"))
                        elif out[0] == "none":
                            got = ("none",)
                        elif out[0] == "exc" and out[1] == "UsageError":
                            got = ("usage",)
                        elif out[0] == "exc" and out[1] == "TypeError" and "not iterable" in out[2]:
                            got = ("bodyerr",)
                        else:
                            got = tuple(str(x) for x in out[:3])
                    f21 = _f21_region(model, classes, cj, nm, ns)
                    if f21 is not None and exp not in (UNSPEC, "F20"):
                        res.count("f21_region_probes")
                        if not _same(got, exp) and _f21_region.collide:
                            model.taint.add((cj, nm))
                            res.skip_unspec()
                            continue
                        if not _same(got, exp):
                            try:
                                pred = model.expected_from(("table", f21), v, inst)
                            except _Usage:
                                pred = ("usage",)
                            except _BodyErr:
                                pred = ("bodyerr",)
                            model.taint.add((cj, nm))
                            res.violation("extend-super-after-premerge", ["F21"], spec,
                                          observed={"class": classes[cj]["name"], "name": nm, "value": repr(v), "got": repr(got)[:120]},
                                          acceptable=repr(exp)[:120], finding="F21" if _same(got, pred) else None)
                        continue
                    if exp == "F20":
                        model.taint.add((cj, nm))
                        # defect model of F20: the marker on a later definition is ignored, i.e. the class
                        # behaves as if it had no extend_super at all
                        alt = Model([dict(k, defs=[dict(d, ext=False) if k is classes[cj] else d for d in k["defs"]])
                                     if k is classes[cj] else k for k in classes])
                        try:
                            pred = alt.expected(cj, nm, v, inst)
                        except _Usage:
                            pred = ("usage",)
                        except _BodyErr:
                            pred = ("bodyerr",)
                        if pred == UNSPEC:
                            res.skip_unspec()
                            continue
                        full = Model([dict(k, defs=_ext_first(k["defs"], nm)) if k is classes[cj] else k for k in classes])
                        try:
                            want = full.expected(cj, nm, v, inst)
                        except (_Usage, _BodyErr):
                            want = None
                        if want is not None and want not in (UNSPEC, "F20") and not _same(got, want):
                            res.violation("extend-super-on-later-definition", ["F20"], spec,
                                          observed={"class": classes[cj]["name"], "name": nm, "value": repr(v), "got": repr(got)[:120]},
                                          acceptable=repr(want)[:120],
                                          finding="F20" if _same(got, pred) else None)
                        continue
                    if not _same(got, exp):
                        res.violation("class-model", [got[0], exp[0], "older-class" if cj != ci else "new-class"], spec,
                                      observed={"class": classes[cj]["name"], "after": c["name"], "name": nm,
                                                "value": repr(v), "got": repr(got)[:160]},
                                      acceptable=repr(exp)[:160])

    for ci, c in enumerate(classes):
        src = class_source(c, classes)
        try:
            if src is None:
                res.count("create_subclass")
                b0 = ns[classes[c["bases"][0]]["name"]]
                ns[c["name"]] = ns2[c["name"]] = b0.create_subclass(*[ns[classes[b]["name"]] for b in c["bases"][1:]], name=c["name"])
            else:
                home = ns2 if mods[ci] else ns
                _, f = load_source(src, home, tag="c17", shared=True)
                files.append(f)
                ns[c["name"]] = ns2[c["name"]] = home[c["name"]]
        except Exception as e:  # noqa: BLE001
            f20 = any(any(d["ext"] for d in [x for x in c["defs"] if x["name"] == nm][1:]) for nm in NAMES)
            res.violation("class-statement-raises", [type(e).__name__, f20], spec,
                          observed={"class": c["name"], "error": f"{type(e).__name__}: {str(e)[:80]}", "source": src},
                          acceptable="class body executes",
                          finding="F20" if f20 and isinstance(e, AttributeError) and "'name'" in str(e) else None)
            break
        res.count("class_statements")
        if c["root"] == "mc":
            res.count("mc_roots")
        built.append(ci)
        for nm in NAMES:
            if model.n_ext_bases(ci, nm) >= 2:
                res.count("extend_super_2bases")
                ext2 = True
            if model.merged_mixins(ci, nm):
                res.count("marked_mixins_merged_by_empty_class")
        probe_all(model, classes, ci, c)
    late = spec.get("late")
    if late and len(built) == len(classes):
        import copy
        nm = late["nm"]
        anc = {}

        def ancs(k):
            if k not in anc:
                anc[k] = set()
                for b_ in classes[k]["bases"]:
                    anc[k] |= {b_} | ancs(b_)
            return anc[k]
        elig = []
        for k, ck in enumerate(classes):
            e = model.eff(k, nm)
            own = [d for d in ck["defs"] if d["name"] == nm]
            if (ck["ovldcls"] and own and e not in (None, UNSPEC, "F20") and e[0] == "table" and (k, nm) not in model.taint
                    and not any(k in ancs(o) for o in range(len(classes)))
                    and ovld.is_ovld(ns[ck["name"]].__dict__.get(nm))):
                elig.append(k)
        if elig:
            k = elig[int(late["pick"] * len(elig))]
            # a signature the class does not have yet: registering an identical signature again *stacks* (call_next of
            # the newer reaches the older), which is C05 / C07's matter, not a class-body rule
            fresh = [t for t in TYPES if t not in model.eff(k, nm)[1]]
            late = dict(late, t=late["t"] if late["t"] in fresh else fresh[int(late["pick"] * len(fresh))]) if fresh else None
        if elig and late:
            newmid = 1 + max([d["mid"] for cc in classes for d in cc["defs"]] or [0])
            classes2 = copy.deepcopy(classes)
            classes2[k]["defs"].append({"mid": newmid, "name": nm, "t": late["t"], "ext": False, "kind": late["kind"], "po": False})
            model2 = Model(classes2)
            model2.taint = model.taint
            body = (f"        return ('n', {newmid}, self, call_next(x))" if late["kind"] == "next"
                    else f"        return ('m', {newmid}, self)")
            src = (f"@{classes[k]['name']}.{nm}.register\ndef _late(self, x: {late['t']}):\n"
                   f"        VF_.enter({newmid}, locals())\n{body}\n")
            try:
                _, f = load_source(src, ns2 if late["mod"] else ns, tag="c17", shared=True)
                files.append(f)
            except Exception as e:  # noqa: BLE001
                res.violation("late-registration-raises", [type(e).__name__], spec,
                              observed={"class": classes[k]["name"], "error": f"{type(e).__name__}: {str(e)[:80]}", "source": src},
                              acceptable="registering one more definition on the method of a class is accepted")
            else:
                res.count("late_registrations")
                if len({mods[x] for x in ancs(k) | {k}} | {late["mod"]}) > 1:
                    res.count("late_registrations_across_modules")
                probe_all(model2, classes2, k, {"name": classes[k]["name"] + "+late"})
    if has_mi and ext2:
        res.nontrivial([[c["bases"], c["root"], [(d["name"], d["t"], d["ext"], d["kind"]) for d in c["defs"]]]
                        for c in classes])
    forget(files)


def _f21_region(model, classes, ci, nm, ns):
    """Defect model of F21.  OvldMC.__prepare__ pre-merges a name when a *later* base's version still
    carries the extend_super marker; a marked own definition then joins that pre-merge instead of
    collecting all bases, so unmarked later bases are dropped.  Precondition is read from the real
    objects (marker attribute); the prediction is the table the pinned algorithm builds.
    Returns the predicted table or None when the class is outside the region."""
    c = classes[ci]
    own = [d for d in c["defs"] if d["name"] == nm]
    if not own or not own[0]["ext"] or len(c["bases"]) < 2:
        return None
    vals = [(b, getattr(ns[classes[b]["name"]], nm, None)) for b in c["bases"]]
    ovlds = [(b, v) for b, v in vals if v is not None and ovld.is_ovld(v)]
    marked = [(b, v) for b, v in ovlds[1:] if getattr(v, "_extend_super", False)]
    if not marked:
        return None
    tab = {}
    seen_t = []

    def put(t, mid):
        seen_t.append(t)
        tab[t] = mid
    for b, v in [ovlds[0]] + marked:
        e = model.eff(b, nm)
        if e in (UNSPEC, "F20") or e is None:
            return None
        for t, m in (e[1] if e[0] == "table" else {model.kind[e[1]]["t"]: e[1]}).items():
            put(t, m)
    put(own[0]["t"], own[0]["mid"])
    for b, v in vals:
        if v is not None and not ovld.is_ovld(v):
            e = model.eff(b, nm)
            if e is None or e in (UNSPEC, "F20") or e[0] != "plain":
                return None
            put(model.kind[e[1]]["t"], e[1])
    for d in own[1:]:
        put(d["t"], d["mid"])
    # identical signatures coming from several of the merged sources: on this path they are stacked (call_next
    # reaches the shadowed one) where the ordinary path replaces - neither is stated
    _f21_region.collide = len(seen_t) != len(set(seen_t))
    return tab


def _ext_first(defs, nm):
    out, first = [], True
    for d in defs:
        if d["name"] == nm:
            out.append(dict(d, ext=first))
            first = False
        else:
            out.append(d)
    return out


def _same(a, b):
    """structural equality with identity comparison for the embedded ``self`` objects"""
    if type(a) is not type(b) and not (isinstance(a, (list, tuple)) and isinstance(b, (list, tuple))):
        return a is b
    if isinstance(a, (list, tuple)):
        return type(a) is type(b) and len(a) == len(b) and all(_same(x, y) for x, y in zip(a, b))
    if isinstance(a, (int, str, float, bytes)) or a is None:
        return a == b
    return a is b
