from ovld import OvldBase, recurse

class Tally(OvldBase):
    def __init__(self):
        self.__seen = 0

    def count(self, x: int):
        self.__seen += 1
        return self.__seen

    def count(self, xs: list):
        self.__seen += 100
        return [recurse(x) for x in xs] + [self.__seen]

try:
    got = Tally().count([5, 6])
except Exception as e:
    got = f"{type(e).__name__}: {e}"[:80]
print(got)
print("PASS" if got == [101, 102, 102] else "FAIL")
