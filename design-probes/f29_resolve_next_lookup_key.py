import abc, sys
from ovld import ovld
class Shape(abc.ABC): pass

@ovld
def f(x: abc.ABCMeta):
    return "metaclass method"
@ovld
def f(x: object):
    return "object method"

print("call    :", f(Shape))
print("resolve :", f.resolve(Shape).__name__)

@ovld(priority=1)
def g(x: object):
    return ["wrap", g.next(x)]
@ovld
def g(x: abc.ABCMeta):
    return ["meta", g.next(x)]
@ovld(priority=-1)
def g(x: object):
    return "bottom"
sys.setrecursionlimit(200)
try:
    print("g.next chain:", g(Shape))
except RecursionError as e:
    print("g.next chain: RecursionError")
print("g(1):", g(1))
