import sys, random, collections, itertools, inspect, linecache
from h import *
import pin
from ovld import Ovld
REC = []
class VF2:
    def enter(self, mid, loc): REC.append((mid, dict(loc)))
def make(mid, sig_src, anns, defaults_objs):
    fname = f"<vg:{mid}:{next(h_cnt)}>"
    src = f"def m{mid}({sig_src}):\n    __vf.enter({mid}, locals())\n    return RET[{mid}]\n"
    linecache.cache[fname] = (len(src), None, src.splitlines(True), fname)
    ns = {"__vf": VF2(), "RET": RETS, **defaults_objs}
    exec(compile(src, fname, "exec"), ns)
    fn = ns[f"m{mid}"]; fn.__annotations__ = anns
    return fn
import itertools as _it
h_cnt = _it.count()
RETS = {}
KNOWN=[0]
class Sent:
    def __init__(self, n): self.n = n
    def __repr__(self): return f"<{self.n}>"
def run(seed):
    rng = random.Random(seed)
    uniform = rng.random() < 0.6
    nmeth = rng.randint(1, 4)
    T = [int, str, float]
    methods = []
    for mid in range(nmeth):
        npos = rng.randint(0, 3)
        nopt = rng.randint(0, npos) if rng.random() < 0.5 else 0
        posonly = rng.random() < 0.2
        names = [f"p{i}" if uniform else f"p{i}_{rng.choice('ab')}" for i in range(npos)]
        kws = rng.sample(["k1", "k2"], rng.randint(0, 2)) if rng.random() < 0.5 else []
        kwopt = {k: rng.random() < 0.5 for k in kws}
        parts = []; anns = {}; dobjs = {}; info = dict(mid=mid, pos=[], kw={})
        for i, n in enumerate(names):
            t = rng.choice(T); anns[n] = t
            if i >= npos - nopt:
                d = Sent(f"D{mid}.{n}"); dobjs[f"D_{mid}_{n}"] = d; parts.append(f"{n}=D_{mid}_{n}"); info["pos"].append((n, t, d))
            else:
                parts.append(n); info["pos"].append((n, t, None))
        if posonly and names: parts.append("/")
        if kws: parts.append("*")
        for k in kws:
            t = rng.choice(T); anns[k] = t
            if kwopt[k]:
                d = Sent(f"D{mid}.{k}"); dobjs[f"D_{mid}_{k}"] = d; parts.append(f"{k}=D_{mid}_{k}"); info["kw"][k] = (t, d)
            else:
                parts.append(k); info["kw"][k] = (t, None)
        RETS[mid] = Sent(f"R{mid}")
        info["fn"] = make(mid, ", ".join(parts), anns, dobjs); info["src"] = ", ".join(parts)
        methods.append(info)
    o = Ovld()
    for m in methods: o.register(m["fn"])
    try: o.compile()
    except TypeError as e:
        return methods, [("build-typeerror", str(e)[:60])]
    VAL = {int: 7, str: "s", float: 2.5}
    out = []
    # call shapes: positional-only usage + kw-only by keyword
    for npos_given in range(0, 4):
        for kwset in [(), ("k1",), ("k2",), ("k1", "k2")]:
            for _ in range(3):
                pt = [rng.choice(T) for _ in range(npos_given)]; kt = {k: rng.choice(T) for k in kwset}
                pargs = [Sent(f"a{i}") for i in range(npos_given)]
                # need real typed values: wrap? use subclass instances
                pargs = [mk_val(t, f"a{i}") for i, t in enumerate(pt)]
                kargs = {k: mk_val(t, k) for k, t in kt.items()}
                # applicable methods by model
                app = []
                for m in methods:
                    req = sum(1 for (_, _, d) in m["pos"] if d is None)
                    if not (req <= npos_given <= len(m["pos"])): continue
                    if not all(isinstance(a, t) for a, (_, t, _) in zip(pargs, m["pos"])): continue
                    if not set(kargs) <= set(m["kw"]): continue
                    if any(d is None and k not in kargs for k, (t, d) in m["kw"].items()): continue
                    if not all(isinstance(kargs[k], m["kw"][k][0]) for k in kargs): continue
                    app.append(m)
                maxpos = max(len(m["pos"]) for m in methods)
                f3 = bool(kargs) and npos_given < maxpos
                f4 = npos_given == 0 and not any(len(m["pos"]) == 0 and not m["kw"] for m in methods) or (npos_given == 0 and bool(kargs))
                if f3 or f4: KNOWN[0] += 1; continue
                REC.clear()
                try: res = o(*pargs, **kargs); exc = None
                except TypeError as e: res = None; exc = str(e)[:70]
                if len(app) == 1:
                    m = app[0]
                    if exc is not None: out.append(("rejected", m["src"], npos_given, tuple(kargs), exc)); continue
                    if not REC or REC[0][0] != m["mid"]: out.append(("wrong-method", m["src"], npos_given, tuple(kargs))); continue
                    loc = REC[0][1]
                    for i, (n, t, d) in enumerate(m["pos"]):
                        exp = pargs[i] if i < npos_given else d
                        if loc[n] is not exp: out.append(("bad-pos", m["src"], npos_given, tuple(kargs), n, repr(loc[n]), repr(exp)))
                    for k, (t, d) in m["kw"].items():
                        exp = kargs.get(k, d)
                        if loc[k] is not exp: out.append(("bad-kw", m["src"], npos_given, tuple(kargs), k, repr(loc[k]), repr(exp)))
                    if res is not RETS[m["mid"]]: out.append(("bad-ret",))
                elif len(app) == 0:
                    if exc is None: out.append(("ran-inapplicable", [mm["src"] for mm in methods], npos_given, tuple(kargs), REC[0][0] if REC else None))
    return methods, out
class IntV(int):
    pass
class StrV(str):
    pass
class FloatV(float):
    pass
def mk_val(t, tag):
    return {int: IntV(7), str: StrV("s"), float: FloatV(2.5)}[t]
stats = collections.Counter(); exs = collections.defaultdict(list)
for seed in range(int(sys.argv[1])):
    methods, out = run(seed)
    stats["progs"] += 1
    for x in out:
        stats[x[0]] += 1
        if len(exs[x[0]]) < 3: exs[x[0]].append((seed, [m["src"] for m in methods], x))
print(stats, 'known-skipped', KNOWN)
for k, v in exs.items():
    for e in v: print(k, e)
