import sys, os, linecache, time
import ovld
from ovld import Ovld
LIBDIR = os.path.dirname(ovld.__file__)
mon = sys.monitoring; TOOL = 4
class Injected(BaseException): pass
state = {"armed": False, "n": 0, "target": None, "where": None}
def on_line(code, line):
    fn = code.co_filename
    if not (fn.startswith(LIBDIR) or fn.startswith("<ovld")): return mon.DISABLE
    if not state["armed"]: return
    state["n"] += 1
    if state["n"] == state["target"]:
        state["where"] = (os.path.basename(fn), code.co_name, line)
        state["armed"] = False
        raise Injected()
mon.use_tool_id(TOOL, "inject"); mon.register_callback(TOOL, mon.events.LINE, on_line); mon.set_events(TOOL, mon.events.LINE)

SRC = '''
def m1(x: int): return ("int", call_next(x))
def m2(x: str): return "str"
def m3(x: object): return "obj"
def m4(xs: list): return [recurse(x) for x in xs]
'''
def build():
    fname = "<vf:case1>"
    linecache.cache[fname] = (len(SRC), None, SRC.splitlines(True), fname)
    ns = {"call_next": ovld.call_next, "recurse": ovld.recurse, "__name__": "vfcase"}
    exec(compile(SRC, fname, "exec"), ns)
    o = Ovld()
    for k in ("m1","m2","m3","m4"): o.register(ns[k])
    return o.dispatch
def outcome(fn):
    try: return fn()
    except Injected: return "INJECTED"
    except TypeError as e: return "ERR:" + ("amb" if "Ambiguous" in str(e) else "none" if "No method" in str(e) else str(e)[:60])
    except Exception as e: return "EXC:" + type(e).__name__ + ":" + str(e)[:60]
# count
d = build(); state.update(armed=True, n=0, target=-1); ref = outcome(lambda: d([1,"s",2.5])); N = state["n"]; state["armed"]=False
print("ref", ref, "line events in first call:", N)
t0=time.time(); res={}
for k in range(1, N+1):
    d = build(); state.update(armed=True, n=0, target=k, where=None)
    first = outcome(lambda: d([1,"s",2.5])); state["armed"]=False
    probes = tuple(outcome(lambda v=v: d(v)) for v in (1, "s", 2.5, [1]))
    res.setdefault(repr(probes), []).append(state["where"])
print(time.time()-t0, "s")
for p, ws in res.items(): print(len(ws), p, ws[:3])
