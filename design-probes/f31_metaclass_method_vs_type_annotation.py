import abc
from ovld import Ovld

class Shape(abc.ABC): pass

def build(extra):
    f = Ovld()
    @f.register
    def _(x: abc.ABCMeta):
        return "an ABC"
    @f.register
    def _(x: object):
        return "object"
    if extra:
        @f.register
        def _(x: type[str]):       # not applicable to Shape
            return "a str class"
    return f

a, b = build(False)(Shape), build(True)(Shape)
print(a, "|", b)
print("PASS" if a == b == "an ABC" else "FAIL")
