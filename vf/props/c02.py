"""C02 - static resolution follows the documented priority-then-specificity rule.

Monitor: for every call, (a) the outcome of the public call - list of method bodies entered, or the
error kind - must lie in the acceptable set computed by the executable reference model
(vf/refmodel.py: priority, then pointwise same-or-subclass with a difference, then latest
registration; 'Ambiguous' when nobody beats all others; 'No method' when nothing is applicable);
(b) on 'No method' / 'Ambiguous' no generated body may have been entered; (c) resolve(*args) names
the method the call then enters, or raises the same error kind.

Workload: an exhaustive small tier (every subclass relation on <= 4 classes x every set of <= 3
one-position methods with three priority patterns and every set of <= 2 two-position methods, x every
argument-class tuple) plus random programs (<= 8 classes with ABC registration / protocol /
__subclasshook__ members, 1-3 positions, keyword-only typed parameters, priorities, repeated
signatures, other arities).
"""
import itertools

from .. import boot  # noqa: F401
from .. import gen, tx as T
from .. import refmodel as R
from .. import frozen
from ..observe import pin
from ..prog import Program

ID = "C02"
LEVEL = "exploration"
RULE = ("exhaustive part: all 40 subclass relations on 4 creation-ordered classes (thorough: also all 357 relations on 5 classes) x (all sets of <= 3 one-position "
        "methods over the 4 classes + object, priority patterns {all 0, first +1, first -1}) + (all sets of <= 2 "
        "two-position methods) x all argument-class tuples; random part: hierarchies of 2-8 classes (MI, ABC "
        "registration, protocol, __subclasshook__), 1-3 positions, <= 6 methods, kw-only typed parameters, "
        "priorities {0,1,-1}, repeated signatures, other arities; all argument tuples when <= 512 else 256 sampled. "
        "distinct_nontrivial = programs (de-duplicated by subclass relation + method-signature multiset) in which "
        "some call has >= 2 applicable methods and the program has a multiple-inheritance class or >= 2 positions")
ASSUMPTIONS = [
    "Python's issubclass defines the subclass order of classes, ABCs and protocols",
    "Python's own binding TypeError of the generated entry point counts as 'no applicable method' (shapes are C03's matter)",
    "two applicable methods that coincide on every supplied argument but differ in an unsupplied parameter are unspecified",
]
REPORT_COUNTERS = ["programs", "programs_exhaustive", "calls", "calls_2plus_applicable", "calls_ambiguous_expected",
                   "calls_none_expected", "resolve_checked", "error_calls_no_body_checked", "kw_calls", "repeat_sig_programs"]

_EXH = {}


def _exhaustive(n=4):
    """Deterministic list of exhaustive-tier program specs over n classes (built lazily, identical in every worker)."""
    if n in _EXH:
        return _EXH[n]
    rels, hiers = set(), []
    for h in gen.all_hierarchies(n):
        r = gen.subclass_relation(h)
        if r not in rels:
            rels.add(r)
            hiers.append(h)
    names = [f"K{i}" for i in range(n)] + ["object"]
    progs = []
    for h in hiers:
        # one-position sets of <= 3 methods x priority patterns
        for k in (1, 2, 3):
            for ts in itertools.combinations(names, k):
                for pat in (0, 1, -1):
                    if pat and k == 1:
                        continue
                    ms = [{"mid": i, "pos": [{"n": "a0", "t": t}], "prio": (pat if i == 0 else 0), "kind": "leaf"}
                          for i, t in enumerate(ts)]
                    progs.append({"hier": h, "methods": ms, "npos": 1, "exh": True})
        # two-position sets of <= 2 methods
        pairs = list(itertools.product(names, repeat=2))
        for a in pairs:
            progs.append({"hier": h, "methods": [{"mid": 0, "pos": [{"n": "a0", "t": a[0]}, {"n": "a1", "t": a[1]}],
                                                   "prio": 0, "kind": "leaf"}], "npos": 2, "exh": True})
        for a, b in itertools.combinations(pairs, 2):
            progs.append({"hier": h, "npos": 2, "exh": True, "methods": [
                {"mid": 0, "pos": [{"n": "a0", "t": a[0]}, {"n": "a1", "t": a[1]}], "prio": 0, "kind": "leaf"},
                {"mid": 1, "pos": [{"n": "a0", "t": b[0]}, {"n": "a1", "t": b[1]}], "prio": 0, "kind": "leaf"}]})
    _EXH[n] = progs
    return progs


def plan(tier):
    # quick: the complete 4-class tier; thorough: the complete 5-class tier (357 subclass relations) as well
    nexh = len(_exhaustive(4)) + (len(_exhaustive(5)) if tier == "thorough" else 0)
    nrand = 3000 if tier == "quick" else 60000
    return {"cases": nexh + nrand, "params": {"nexh": nexh, "n4": len(_exhaustive(4))}, "exhaustive": False,
            "timeout_s": 1200 if tier == "quick" else 7200,
            "min": {"calls": 200_000, "calls_2plus_applicable": 15_000, "calls_ambiguous_expected": 5_000,
                    "resolve_checked": 100_000, "kw_calls": 2_000, "programs_exhaustive": nexh}}


def extra_coverage(counters):
    n4 = len(_exhaustive(4))
    done = counters.get("programs_exhaustive", 0)
    return {"exhaustive_4_class_tier_complete": done >= n4, "exhaustive_4_class_tier_programs": n4,
            "exhaustive_5_class_tier_complete": bool(_EXH.get(5)) and done >= n4 + len(_EXH[5]),
            "exhaustive_5_class_tier_programs": len(_EXH[5]) if _EXH.get(5) else 0}


KW = ["k1", "k2"]


def gen_case(rng, params, idx):
    if idx < params["n4"]:
        return _exhaustive(4)[idx]
    if idx < params["nexh"]:
        return _exhaustive(5)[idx - params["n4"]]
    if rng.random() < 0.3:
        # dense: few classes, two positions, 3-5 distinct equal-priority methods - most calls have several applicable
        # methods, some dominated by the head of the list and some not
        hier = gen.gen_hierarchy(rng, rng.randint(3, 4))
        names = [s["name"] for s in hier] + ["object"]
        pairs = list(itertools.product(names, repeat=2))
        methods = [{"mid": i, "pos": [{"n": "a0", "t": a}, {"n": "a1", "t": b}], "kw": [],
                    "prio": 0 if rng.random() < 0.85 else rng.choice([1, -1]), "kind": "leaf"}
                   for i, (a, b) in enumerate(rng.sample(pairs, rng.randint(3, 5)))]
        return {"hier": hier, "methods": methods, "npos": 2, "exh": False, "callseed": rng.randrange(1 << 30), "dense": True}
    hier = gen.gen_hierarchy(rng, rng.randint(2, 8))
    pool = [s["name"] for s in hier] + ["object", "HasFly", "Shape", "Hook"]
    npos = rng.choice([1, 1, 2, 2, 3])
    methods = []
    for i in range(rng.randint(1, 6)):
        if methods and rng.random() < 0.2:
            src = rng.choice(methods)
            m = dict(src, mid=i)
            if rng.random() < 0.3:
                m["prio"] = rng.choice([0, 1, -1])
            # the redefinition may add, change or drop a return annotation: it is the same signature all the same
            m["ret"] = ["int", "str", None][i % 3]
        else:
            n = npos
            r = rng.random()
            if r < 0.12 and npos > 1:
                n = npos - 1
            elif r < 0.2:
                n = npos + 1
            pos = [{"n": f"a{j}", "t": rng.choice(pool)} for j in range(n)]
            if rng.random() < 0.06 and n >= 1:
                pos[-1]["opt"] = True
            kwn = rng.sample(KW, rng.choice([0, 0, 0, 1, 2]))
            kw = [{"n": k, "t": rng.choice(pool), "req": rng.random() < 0.6} for k in sorted(kwn)]
            m = {"mid": i, "pos": pos, "kw": kw, "prio": rng.choice([0, 0, 0, 1, -1]), "kind": "leaf"}
        methods.append(m)
    if rng.random() < 0.25:
        # a twin: the same parameter types and priority as another method, the trailing parameter optional in one of
        # them only - two distinct signatures that differ in nothing but which arguments may be omitted
        cands = [m for m in methods if m["pos"] and not any(p.get("opt") for p in m["pos"])]
        if cands:
            src = rng.choice(cands)
            twin = {"mid": len(methods), "pos": [dict(p) for p in src["pos"]], "kw": [dict(k) for k in src.get("kw", [])],
                    "prio": src["prio"], "kind": "leaf"}
            twin["pos"][-1]["opt"] = True
            methods.insert(rng.randrange(len(methods) + 1), twin)
            for i, m in enumerate(methods):
                m["mid"] = i
    gen.strict_first(rng, methods, 0.15)
    spec = {"hier": hier, "methods": methods, "npos": npos, "exh": False, "callseed": rng.randrange(1 << 30)}
    if rng.random() < 0.3:
        spec["bystander"] = rng.choice(["unused", "used"])
    if len(methods) >= 2 and rng.random() < 0.3:
        # the same method set, assembled through a variant / two mixins / a linkback copy whose parent grows later
        spec["mode"] = rng.choice(["variant", "mixin", "linkback"])
        spec["split"] = rng.randint(1, len(methods) - 1)
    return spec


def _calls(spec, env):
    import random
    names = [s["name"] for s in spec["hier"]] + ["object"]
    if spec["exh"]:
        for tup in itertools.product(names, repeat=spec["npos"]):
            yield {"pos": [["i", n] for n in tup], "kw": {}}
        return
    rng = random.Random(spec["callseed"])
    used_kw = sorted({k["n"] for m in spec["methods"] for k in m.get("kw", [])})
    arities = sorted({k for m in spec["methods"]
                      for k in range(sum(1 for p in m["pos"] if not p.get("opt")), len(m["pos"]) + 1)} | {spec["npos"]})
    for n in arities:
        tuples = list(itertools.product(names, repeat=n)) if len(names) ** n <= 512 else None
        if tuples is None:
            tuples = [tuple(rng.choice(names) for _ in range(n)) for _ in range(256)]
        elif len(tuples) > 160 and n != spec["npos"]:
            tuples = rng.sample(tuples, 60)
        for tup in tuples:
            subsets = [[]]
            if used_kw:
                subsets = [[]] if rng.random() < 0.5 else []
                subsets.append(rng.sample(used_kw, rng.randint(1, len(used_kw))))
            for ks in subsets:
                yield {"pos": [["i", x] for x in tup], "kw": {k: ["i", rng.choice(names)] for k in ks}}


def check_case(spec, res):
    pin()
    env = T.Env(spec["hier"])
    try:
        prog = Program(spec, env=env, tag="c02")
        if spec.get("bystander"):
            # history: a method of another arity was registered after all the others and unregistered again (the
            # method set is what it would have been without it)
            from ..methods import make_method
            bfn, bfile = make_method({"mid": 900, "pos": [{"n": f"z{j}", "t": "object", "po": True} for j in range(6)]}, env, prog.vf,
                                     ["return ('m', 900)"], tag="c02", shared_ns=prog.ns)
            prog.files.append(bfile)
            tgt = getattr(prog, "base", None) if spec.get("mode") == "linkback" else prog.ov
            (tgt or prog.ov).register(bfn)
            if spec["bystander"] == "used":
                prog.call(next(iter(_calls(spec, env))))
            (tgt or prog.ov).unregister(bfn)
            prog.bind()
            res.count("programs_with_removed_bystander")
        if spec.get("mode") != "linkback":      # a linkback copy must have followed its parent by itself
            prog.ov.compile()
    except Exception as e:  # noqa: BLE001
        res.violation("build-failed", [type(e).__name__], spec, observed=f"{type(e).__name__}: {e}"[:200],
                      acceptable="a method set with consistent names builds")
        return
    methods = spec["methods"]
    res.count("programs")
    if spec["exh"]:
        res.count("programs_exhaustive")
    if spec.get("mode"):
        res.count("programs_assembled_" + spec["mode"])
    if spec.get("dense"):
        res.count("programs_dense_two_positions")
    res.sample(spec, "exhaustive" if spec["exh"] else "random")
    sigs = [R.sig_identical(a, b) for a, b in itertools.combinations(methods, 2)]
    if any(sigs):
        res.count("repeat_sig_programs")
    multi = False
    has_mi = any(len(s["bases"]) > 1 for s in spec["hier"])
    index = {m["mid"]: i for i, m in enumerate(methods)}
    for call in _calls(spec, env):
        vals = prog.args(call)
        exp = R.resolve(methods, call, env, (vals[0], vals[1]), index)
        res.ev()
        res.count("calls")
        if call["kw"]:
            res.count("kw_calls")
        if exp == R.WILD:
            res.skip_unspec()
            continue
        napp = sum(1 for m in methods if R.applicable(m, call, env, (vals[0], vals[1])))
        if napp >= 2:
            res.count("calls_2plus_applicable")
            multi = True
        if exp[0] == "amb":
            res.count("calls_ambiguous_expected")
        if exp[0] == "none":
            res.count("calls_none_expected")
        out = prog.call(call, vals)
        obs = _obs(out)
        callname = {"pos": [v[1] for v in call["pos"]], "kw": {k: v[1] for k, v in call["kw"].items()}}
        if obs[0] in ("none", "amb"):
            res.count("error_calls_no_body_checked")
            if out[-1]:
                res.violation("body-ran-on-error", [obs[0]], spec, observed={"call": callname, "entered": out[-1]},
                              acceptable="no body entered")
        if not _agree(obs, exp):
            finding = None
            if exp[0] == "amb" and obs[0] == "win":
                fro = frozen.outcome(methods, call, env)
                if fro is not None and tuple(fro) == tuple(obs):
                    finding = "F1"
            res.violation("call-vs-model", [obs[0], exp[0]], spec,
                          observed={"call": callname, "outcome": obs}, acceptable=exp, finding=finding)
        # (c) resolve() names the same method (positional calls only: resolve takes no keywords)
        if not call["kw"]:
            r = prog.resolve(call, vals)
            res.count("resolve_checked")
            if obs[0] == "win":
                ok = r[0] == "handler" and r[1] == obs[1]
            elif obs[0] in ("none", "amb"):
                ok = r[0] == obs[0] or (obs[0] == "none" and r[0] in ("none", "bind"))
            else:
                ok = True
            if not ok:
                res.violation("resolve-vs-call", [obs[0], r[0]], spec,
                              observed={"call": callname, "call_outcome": obs, "resolve": r}, acceptable="same method / same error kind")
    if multi and (has_mi or spec["npos"] >= 2):
        rel = gen.subclass_relation(spec["hier"])
        res.nontrivial([rel, sorted([[T.tname(p.get("t") or "object") for p in m["pos"]],
                                     sorted((k["n"], T.tname(k["t"]), k["req"]) for k in m.get("kw", [])),
                                     m.get("prio", 0)] for m in methods)])
    prog.close()


def _obs(out):
    if out[0] == "ran":
        t = out[2]
        if isinstance(t, tuple) and t and t[0] == "m" and out[1] == (t[1],):
            return ("win", t[1])
        return ("weird", repr(out)[:80])
    if out[0] in ("none", "bind"):
        return ("none",)
    if out[0] == "amb":
        return ("amb",)
    return tuple(str(x) for x in out[:3])


def _agree(obs, exp):
    if exp[0] == "win":
        return obs == ("win", exp[1])
    if exp[0] == "none":
        return obs == ("none",)
    if exp[0] == "amb":
        return obs == ("amb",)
    return False
