"""C20 - each argument-type combination is resolved at most once between changes.

Monitors: (1) invocation counters inside harness-supplied class predicates (class_check) and inside
__type_order__ / __is_supertype__ hooks of harness classes; (2) sys.monitoring PY_START counters on
the library's resolution entry points (MultiTypeMap.resolve/mro, TypeMap.__missing__,
sort_types, typeorder, subclasscheck).  Oracle: after a warm-up pass that made each call once
(direct, and through recurse / call_next / f.next inside the bodies, plus resolve()), a second pass
over the same calls in another order must leave **all** counters unchanged, per call, for every call
whose whole first execution raised no dispatch error; after a register() the counters may move during
one more pass and must then stop again.
"""
import sys

from .. import boot  # noqa: F401
from .. import gen, tx as T
from ..observe import pin
from ..prog import Program, norm

import ovld.mro as _mro
import ovld.typemap as _tm

ID = "C20"
LEVEL = "exploration"
RULE = ("cases = random programs whose annotations mix plain classes, classes with user order/subtype hooks, "
        "class_check predicates, unions / intersections of those and some Literal / Dependent parameters, with "
        "leaf / call_next / f.next / recurse bodies x 12 calls; pass 1 warms, pass 2 (shuffled) must move no counter; then "
        "one register(), pass 3 re-warms, pass 4 must move no counter; distinct_nontrivial = distinct programs "
        "(annotation vectors) whose user hooks were reached through >= 2 entry paths during warm-up")
ASSUMPTIONS = [
    "a call that ended in a dispatch error is re-resolved by design and is excluded from the second pass",
    "value conditions of Dependent / Literal parameters are evaluated per call by design and are not counted",
    "if the library's resolution entry points are renamed the internal counters are reported as missing and only the user-hook counters decide",
]
REPORT_COUNTERS = ["programs", "second_pass_calls_checked", "second_pass_after_register_checked", "warm_user_hook_calls",
                   "warm_internal_calls", "entry_paths_nested", "resolve_calls_checked", "watch_points", "introspection_between_calls",
                   "parent_used_between_calls", "copies_derived_between_calls",
                   "copies_first_used_between_calls"]

TOOL = 3
WATCH = {}
CNT = {"n": 0}


def _watch_setup():
    if WATCH:
        return
    # MultiTypeMap.__missing__ itself is *not* watched: a call_next whose current method is not a
    # candidate for the new argument types is answered by two dictionary look-ups inside it on every
    # call - no type-order or applicability computation, which is all the property forbids.
    for owner, name in ((_tm.MultiTypeMap, "resolve"), (_tm.MultiTypeMap, "mro"),
                        (_tm.TypeMap, "__missing__"), (_mro, "sort_types"), (_mro, "typeorder"), (_mro, "subclasscheck")):
        fn = getattr(owner, name, None)
        code = getattr(fn, "__code__", None)
        if code is not None:
            WATCH[code] = f"{getattr(owner, '__name__', owner)}.{name}"
    mon = sys.monitoring
    if mon.get_tool(TOOL) is None:
        mon.use_tool_id(TOOL, "vf-c20")

    def on_start(code, off):
        if code in WATCH:
            CNT["n"] += 1
            return None
        return mon.DISABLE

    mon.register_callback(TOOL, mon.events.PY_START, on_start)
    mon.set_events(TOOL, mon.events.PY_START)


def plan(tier):
    n = 800 if tier == "quick" else 20000
    return {"cases": n, "params": {}, "timeout_s": 1200 if tier == "quick" else 7200,
            "min": {"second_pass_calls_checked": 2_000, "second_pass_after_register_checked": 1_000,
                    "warm_user_hook_calls": 5_000, "warm_internal_calls": 20_000, "entry_paths_nested": 500,
                    "parent_used_between_calls": 300, "copies_derived_between_calls": 500,
                    "copies_first_used_between_calls": 200}}


def _gen_t(rng, classes):
    r = rng.random()
    if r < 0.5:
        return rng.choice(classes + ["object", "int", "str"])
    if r < 0.7:
        return ["CC", rng.choice(["evenname", "hasfly", "isk", "nobase"])]
    if r < 0.8:
        a, b = rng.choice(classes + ["int"]), ["CC", rng.choice(["evenname", "isk"])]
        return [rng.choice(["U", "I"]), a, b]
    if r < 0.87:
        return rng.choice([["L", 1], ["L", 2, 3], ["D", "int", "ge3"], ["D", "int", "even"]])
    if r < 0.95:
        # a class predicate *inside* a value-dependent combination, or as the bound of a condition: the class-level
        # part of such a check must not be asked again per call either
        cc = ["CC", rng.choice(["evenname", "isk", "nobase", "hasfly"])]
        dep = rng.choice([["L", 1], ["L", 2, 3], ["D", "int", "ge3"], ["D", "object", "truthy"]])
        return rng.choice([["U", dep, cc], ["U", cc, dep], ["I", cc, ["D", "object", "truthy"]], ["D", cc, "truthy"],
                           ["U", ["D", cc, "truthy"], "str"]])
    return ["H", rng.choice(["fly", "bit_length"])]


def gen_case(rng, params, idx):
    hier = gen.gen_hierarchy(rng, rng.randint(2, 5), attrs=True)
    for s in hier:
        if rng.random() < 0.4:
            s["ordhook"] = True
    classes = [s["name"] for s in hier]
    npos = rng.choice([1, 1, 2])
    methods = []
    for i in range(rng.randint(2, 6)):
        pos = [{"n": f"a{j}", "t": _gen_t(rng, classes)} for j in range(npos)]
        methods.append({"mid": i, "pos": pos, "kw": [], "prio": rng.choice([0, 0, 1]),
                        "kind": rng.choice(["leaf", "leaf", "next", "fnext", "rec", "nextalt"])})
    tie = rng.random() < 0.3
    if tie:
        # a class-predicate method and a value-dependent method tied at the same position (same priority): a value
        # that fails the condition falls through to the predicate method - the predicate is asked once per class
        j = rng.randrange(npos)
        methods[0]["pos"][j]["t"] = ["CC", rng.choice(["nobase", "isk", "nobase"])]
        methods[1]["pos"][j]["t"] = rng.choice([["D", "int", "ge3"], ["D", "int", "even"], ["L", 1], ["L", 2, 3],
                                               ["D", rng.choice(classes), "never"], ["D", "object", "falsy"]])
        methods[0]["prio"] = methods[1]["prio"] = 0
    extra = {"mid": 100, "pos": [{"n": f"a{j}", "t": _gen_t(rng, classes)} for j in range(npos)], "kw": [],
             "prio": rng.choice([0, 1]), "kind": "leaf"}
    spec = {"hier": hier, "methods": methods, "npos": npos, "late": extra}
    if rng.random() < 0.25:
        spec["mode"] = "linkback_all"      # a linkback copy is warmed up before its parent is ever used
    vals = gen.values_for(hier, builtin=False) + [["v", 1], ["v", 2], ["v", 7], ["v", "s"], ["v", True], ["v", 2.5]]
    cg = gen.CallGen(spec, vals)
    spec["calls"] = [cg.call(rng, p_kw=0) for _ in range(12)]
    if tie:
        spec["tie"] = True
    spec["order2"] = rng.sample(range(12), 12)
    spec["order4"] = rng.sample(range(12), 12)
    return spec


def _snap(env):
    return (env.predlog.class_calls, env.predlog.hook_calls, CNT["n"])


def check_case(spec, res):
    pin()
    _watch_setup()
    res.counters["watch_points"] = max(res.counters["watch_points"], len(WATCH))
    env = T.Env(spec["hier"])
    env.predlog.keep = False
    try:
        prog = Program(spec, env=env, tag="c20")
        prog.ov.compile()
    except Exception:  # noqa: BLE001
        res.count("unbuildable")
        return
    res.count("programs")
    if spec.get("tie"):
        res.count("programs_predicate_tied_with_dependent")
    res.sample({k: spec[k] for k in ("hier", "methods", "npos", "late")} | {"calls": spec["calls"][:3]})

    derived = []

    def one_pass(order, check, label):
        outs = {}
        for k_, i in enumerate(order):
            if check is not None and k_ % 3 == 1:
                # looking at the function between calls (signature, documentation, repr) is not a change either
                import inspect
                f = prog.fn
                try:
                    sig = inspect.signature(f)
                    list(sig.parameters)
                    str(sig)
                    f.__doc__
                    repr(prog.ov)
                    getattr(f, "__signature__", None)
                except Exception:  # noqa: BLE001
                    pass
                res.count("introspection_between_calls")
                if k_ % 6 == 1:
                    # deriving a copy / a linked copy from the function leaves its own set of methods alone
                    try:
                        derived.append(prog.ov.copy(linkback=(k_ % 12 == 1)))
                        res.count("copies_derived_between_calls")
                    except Exception:  # noqa: BLE001
                        pass
                    if label == "second_pass_after_register_checked" and derived:
                        # ... and so does *using* the copy for the first time (after the last change to the
                        # function: a function that has used copies takes no more methods)
                        from ..observe import outcome
                        pa = prog.args(spec["calls"][i])
                        d_ = derived[-1]
                        outcome(lambda: d_(*pa[0], **pa[1]), prog.vf, prog.names)
                        res.count("copies_first_used_between_calls")
                base = getattr(prog, "base", None)
                if base is not None:
                    # using the *parent* (for the first time, then again) changes nobody's set of methods
                    from ..observe import outcome
                    pa = prog.args(spec["calls"][i])
                    outcome(lambda: base.dispatch(*pa[0], **pa[1]), prog.vf, prog.names)
                    res.count("parent_used_between_calls")
            call = spec["calls"][i]
            args = prog.args(call)
            before = _snap(env)
            out = prog.call(call, args)
            if not call["kw"]:
                r = prog.resolve(call, args)
            after = _snap(env)
            outs[i] = norm(out)
            if check is not None and check.get(i) is not None and check[i][0] == "ran":
                res.ev()
                res.count(label)
                res.count("resolve_calls_checked")
                if len(out[1]) > 1:
                    res.count("entry_paths_nested")
                moved = tuple(b - a for a, b in zip(before, after))
                if any(moved):
                    res.violation("recomputation-on-warm-call", [label, [bool(x) for x in moved]], spec,
                                  observed={"call": call, "class_predicate_calls": moved[0], "order_hook_calls": moved[1],
                                            "internal_resolution_entries": moved[2], "first_outcome": check[i]},
                                  acceptable="no counter moves")
                if norm(out) != check[i]:
                    res.violation("warm-call-outcome-changed", [label], spec,
                                  observed={"call": call, "first": check[i], "again": norm(out)}, acceptable="same outcome",
                                  prop="C04")
        return outs

    b0 = _snap(env)
    first = one_pass(range(len(spec["calls"])), None, "")
    b1 = _snap(env)
    res.count("warm_user_hook_calls", (b1[0] - b0[0]) + (b1[1] - b0[1]))
    res.count("warm_internal_calls", b1[2] - b0[2])
    nested_paths = sum(1 for o in first.values() if o[0] == "ran" and len(o[1]) > 1)
    if (b1[0] - b0[0]) + (b1[1] - b0[1]) > 0 and nested_paths >= 1:
        res.nontrivial([[T.tname(p["t"]) for p in m["pos"]] + [m["kind"]] for m in spec["methods"]])
    one_pass(spec["order2"], first, "second_pass_calls_checked")
    # a change: counters may move again, then must stop again
    try:
        prog.ov.register(prog.make(spec["late"]), priority=spec["late"].get("prio", 0))
        prog.bind()
    except Exception:  # noqa: BLE001
        prog.close()
        return
    third = one_pass(range(len(spec["calls"])), None, "")
    one_pass(spec["order4"], third, "second_pass_after_register_checked")
    prog.close()
