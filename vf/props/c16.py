"""C16 - variants and mixins compose without ever disturbing their parents.

Monitor: a graph reference model (vf/graph.py) run in lock-step with the real operations.  After
**every** operation, **every node that has been put to use** is probed with one value per type and
must answer from its model table (parents' tables overlaid in mixin order, own last; per signature
a stack, so an unregister lets the older definition resurface).  This single invariant - "no silent
drift" - covers: registering on a child never changes a parent or sibling; an ancestor of a used
node either refuses a modification (error) or the change shows up in the used node (linkback).
A refusal is itself an alarm when the node has no used descendant at all.
"""
from .. import boot  # noqa: F401
from .. import tx as T
from ..graph import Graph
from ..observe import VF, pin

ID = "C16"
LEVEL = "exploration"
RULE = ("cases = random histories of 4-16 operations over a growing graph of functions: new / Ovld(mixins=) / copy / "
        "variant / add_mixins / register (incl. re-register of a signature, priorities) / unregister / first use, with "
        "and without linkback; after every step every used node is probed on 6 types; distinct_nontrivial = distinct "
        "histories (operation shapes) that modify an ancestor after a descendant's first use or contain a grandchild "
        "or a linkback edge")
ASSUMPTIONS = [
    "on a path that mixes linkback and non-linkback edges either refusal or propagation is accepted; silent drift is not",
    "parameter types are disjoint builtin classes plus object: the model's resolution is unambiguous",
]
REPORT_COUNTERS = ["histories", "operations", "probes", "refusals", "refusals_justified", "ancestor_modified_after_use",
                   "propagated_through_linkback", "grandchild_histories", "linkback_histories", "addmixin_on_used",
                   "override_with_other_parameter_names"]

TYPES = ["int", "str", "float", "bytes", "list", "object"]
VALS = {"int": 1, "str": "s", "float": 2.5, "bytes": b"b", "list": [], "object": None}


def plan(tier):
    n = 8000 if tier == "quick" else 80000
    return {"cases": n, "params": {}, "timeout_s": 1200 if tier == "quick" else 7200,
            "min": {"probes": 30_000, "ancestor_modified_after_use": 100, "refusals_justified": 200,
                    "propagated_through_linkback": 100}}


def _gen_names_case(rng):
    """a child that overrides a parent's method of identical signature with the parameter names swapped (or renamed);
    both functions are then called positionally and by keyword: each must bind the arguments by *its own* names"""
    t0, t1 = rng.choice(["int", "str", "float"]), rng.choice(["int", "str", "float"])
    return {"names_case": True, "types": [t0, t1], "how": rng.choice(["copy", "copy_linkback", "variant", "mixin"]),
            "rename": rng.choice(["swap", "swap", "new"]), "history": rng.choice(["none", "none", "rereg_unreg"]),
            "use_parent_first": rng.random() < 0.5}


def gen_case(rng, params, idx):
    if idx % 12 == 11:
        return _gen_names_case(rng)
    ops = [["new"]]
    n_nodes = 1
    parents = {0: []}
    mids = {0: []}
    mid = 0

    def mspec():
        nonlocal mid
        ms = {"mid": mid, "t": rng.choice(TYPES), "kind": rng.choice(["leaf", "leaf", "nextleaf"]), "prio": rng.choice([0, 0, 0, 1])}
        mid += 1
        return ms

    def ancestors(i):
        out = set()
        for p in parents[i]:
            out |= {p} | ancestors(p)
        return out

    for _ in range(rng.randint(4, 16)):
        op = rng.choice(["new", "copy", "copy", "variant", "mixnew", "register", "register", "register",
                         "unregister", "use", "use", "use", "addmixin"])
        if op == "new":
            ops.append(["new"])
            parents[n_nodes] = []
            mids[n_nodes] = []
            n_nodes += 1
        elif op in ("copy", "variant", "mixnew"):
            p = rng.randrange(n_nodes)
            lb = rng.random() < 0.4
            extra = [q for q in rng.sample(range(n_nodes), min(n_nodes, rng.choice([0, 0, 1]))) if q != p]
            if op == "copy":
                ops.append(["copy", p, extra, lb])
                parents[n_nodes] = [p] + extra
                mids[n_nodes] = []
            elif op == "mixnew":
                ops.append(["mixnew", [p] + extra, lb])
                parents[n_nodes] = [p] + extra
                mids[n_nodes] = []
            else:
                ms = mspec()
                ops.append(["variant", p, ms, lb])
                parents[n_nodes] = [p]
                mids[n_nodes] = [ms["mid"]]
            n_nodes += 1
        elif op == "register":
            n = rng.randrange(n_nodes)
            ms = mspec()
            ops.append(["register", n, ms])
            mids[n].append(ms["mid"])
        elif op == "unregister":
            n = rng.randrange(n_nodes)
            if mids[n]:
                ops.append(["unregister", n, rng.choice(mids[n])])
        elif op == "use":
            ops.append(["use", rng.randrange(n_nodes)])
        elif op == "addmixin":
            n, q = rng.randrange(n_nodes), rng.randrange(n_nodes)
            if n != q and q not in parents[n] and n not in ancestors(q):
                ops.append(["addmixin", n, q])
                parents[n].append(q)
    return {"ops": ops}


def _paths(d, a):
    """all upward paths from node d to ancestor a as lists of the child nodes whose edge is taken"""
    if d is a:
        return [[]]
    out = []
    for p in d.parents:
        for rest in _paths(p, a):
            out.append([d] + rest)
    return out


def _check_names(spec, res):
    from ovld import Ovld
    from ..methods import load_source, forget
    py = {"int": (int, 3, 4), "str": (str, "s", "t"), "float": (float, 1.5, 2.5)}
    (c0, a0, _), (c1, _, b1) = py[spec["types"][0]], py[spec["types"][1]]
    ns, files = {}, []

    def mk(p0, p1, tag):
        src = f"def f({p0}, {p1}):\n    return ('{tag}', {{'{p0}': {p0}, '{p1}': {p1}}})\n"
        nsx, f_ = load_source(src, ns, tag="c16n", shared=True)
        files.append(f_)
        fn = nsx["f"]
        fn.__annotations__ = {p0: c0, p1: c1}
        return fn
    P = Ovld()
    pf = mk("a", "b", "P")
    P.register(pf)
    if spec["use_parent_first"]:
        P(a0, b1)
    n0, n1 = ("b", "a") if spec["rename"] == "swap" else ("u", "v")
    cf = mk(n0, n1, "C")
    how = spec["how"]
    if how == "variant":
        C = P.variant(cf)
    elif how == "mixin":
        C = Ovld(mixins=[P])
        C.register(cf)
    else:
        C = P.copy(linkback=(how == "copy_linkback"))
        C.register(cf)
    if spec["history"] == "rereg_unreg":
        # the same signature registered once more under the parent's names, then taken out again
        tmp = mk("a", "b", "T")
        C.register(tmp)
        C.unregister(tmp)
    res.count("override_with_other_parameter_names")
    for label, fn, tag, names in (("child", C, "C", (n0, n1)), ("parent", P, "P", ("a", "b"))):
        for kwcall in (False, True):
            res.ev()
            res.count("probes")
            try:
                got = fn(**{names[0]: a0, names[1]: b1}) if kwcall else fn(a0, b1)
            except Exception as e:  # noqa: BLE001
                got = ("exc", type(e).__name__, str(e)[:60])
            want = (tag, {names[0]: a0, names[1]: b1})
            if got != want:
                res.violation("override-binds-by-its-own-names", [label, "keyword" if kwcall else "positional", spec["how"]], spec,
                              observed={"function": label, "by_keyword": kwcall, "got": repr(got)[:160]},
                              acceptable=repr(want))
    res.nontrivial(["names", spec["how"], spec["rename"], spec["history"]])
    forget(files)


def check_case(spec, res):
    if spec.get("names_case"):
        pin()
        return _check_names(spec, res)
    pin()
    env = T.Env([])
    vf = VF()
    g = Graph(env, vf, tag="c16")
    res.count("histories")
    res.sample(spec)
    nontrivial = False
    unregistered = set()
    for step, op in enumerate(spec["ops"]):
        if op[0] == "unregister" and op[2] in unregistered:
            continue
        if op[0] == "addmixin" and g.nodes[op[1]].used:
            res.count("addmixin_on_used")
        try:
            status = g.apply(op)
        except Exception as e:  # noqa: BLE001
            res.violation("operation-crashed", [op[0], type(e).__name__], spec,
                          observed={"step": step, "op": op, "error": f"{type(e).__name__}: {e}"[:160]},
                          acceptable="succeeds or refuses with the lock error")
            break
        res.count("operations")
        if op[0] == "unregister" and status == "ok":
            unregistered.add(op[2])
        if op[0] in ("register", "unregister", "addmixin"):
            tgt = g.nodes[op[1]]
            used_desc = [d for d in g.nodes if d is not tgt and d.used and tgt in d.ancestors()]
            if status == "refused":
                res.count("refusals")
                if tgt.used and not used_desc:
                    pass  # a used node itself stays open for modification; refusal needs a used descendant
                if used_desc and all(all(all(c.lb for c in path) for path in _paths(d, tgt)) for d in used_desc):
                    res.violation("refused-despite-linkback", [op[0]], spec, observed={"step": step, "op": _opname(op)},
                                  acceptable="every derivation path to every used descendant is linkback: the change must propagate")
                elif used_desc:
                    res.count("refusals_justified")
                else:
                    res.violation("spurious-refusal", [op[0]], spec, observed={"step": step, "op": _opname(op)},
                                  acceptable="modification accepted: no function derived from it has been used")
            else:
                if used_desc:
                    res.count("ancestor_modified_after_use")
                    nontrivial = True
                    for d in used_desc:
                        if any(all(c.lb for c in path) for path in _paths(d, tgt)):
                            res.count("propagated_through_linkback")
        if op[0] == "use":
            g.nodes[op[1]].used = True
        # probe every used node
        bad = False
        for n in g.nodes:
            if not n.used:
                continue
            for t in TYPES:
                res.ev()
                res.count("probes")
                got, exp = g.call(n, VALS[t])
                if got != exp:
                    res.violation("silent-drift", [op[0], got[0], exp[0]], spec,
                                  observed={"step": step, "op": _opname(op), "node": n.id, "probe": t, "got": repr(got)[:80]},
                                  acceptable=repr(exp)[:80])
                    bad = True
        if bad:
            break

    def depth(n):
        return 0 if not n.parents else 1 + max(depth(p) for p in n.parents)
    if any(depth(n) >= 2 for n in g.nodes):
        res.count("grandchild_histories")
        nontrivial = True
    if any(n.lb for n in g.nodes):
        res.count("linkback_histories")
        nontrivial = True
    if nontrivial:
        res.nontrivial([_opname(op) for op in spec["ops"]])
    g.cleanup()


def _opname(op):
    return [x if not isinstance(x, dict) else [x["t"], x["prio"]] for x in op]
