from ovld import OvldBase, recurse

class Doc(OvldBase):
    def render(self, x: int):
        return f"<{x}>"

    def render(self, xs: list):
        header = """items:
        (indented continuation line)"""
        return header + "".join(recurse(x) for x in xs)

def plain(xs):
    header = """items:
        (indented continuation line)"""
    return header + "".join(f"<{x}>" for x in xs)

got, want = Doc().render([1, 2]), plain([1, 2])
print(repr(got)); print(repr(want))
print("PASS" if got == want else "FAIL")
