"""Evaluate a seeded breaking change (patch.diff + demo.py) against the checks.

    /venv/bin/python -m vf.seedcheck <dir-with-patch.diff-and-demo.py> [--checks C01,C02|all] [--tier quick]

The patch is applied to a scratch copy of /repo (never to /repo itself); the demonstration is run against the
unchanged tree (must pass) and against the copy (must fail); the repository's suite is run on the copy (must stay
green); then the selected checks are run against the copy through $OVLD_SRC with their output redirected to the
scratch directory.  Prints one line per check and a JSON summary.
"""
import json
import os
import shutil
import subprocess
import sys
import tempfile

HERE = os.path.dirname(os.path.dirname(os.path.abspath(__file__)))
ALL = [f"C{i:02d}" for i in range(1, 21)]
DESELECT = ["test_conform", "test_conform_2", "test_display", "test_display_more", "test_doc", "test_doc2", "test_method_doc"]


def main(argv):
    d = os.path.abspath(argv[0])
    checks = ALL
    tier = "quick"
    if "--checks" in argv:
        v = argv[argv.index("--checks") + 1]
        checks = ALL if v == "all" else v.split(",")
    if "--tier" in argv:
        tier = argv[argv.index("--tier") + 1]
    tmp = tempfile.mkdtemp(prefix="ovld-seed-")
    out = {"dir": d}
    try:
        shutil.copytree("/repo/src", os.path.join(tmp, "src"))
        r = subprocess.run(["patch", "-p1", "-s", "-F0", "-i", os.path.join(d, "patch.diff")], cwd=tmp, capture_output=True, text=True)
        out["patch_applies"] = r.returncode == 0
        if r.returncode != 0:
            out["patch_error"] = (r.stdout + r.stderr)[-400:]
            print(json.dumps(out, indent=1))
            return 2
        demo = os.path.join(d, "demo.py")
        env_clean = dict(os.environ, PYTHONDONTWRITEBYTECODE="1", PYTHONPATH="/repo/src")
        env_clean.pop("OVLD_VERIF", None)
        a = subprocess.run(["/venv/bin/python", demo], env=env_clean, capture_output=True, text=True, timeout=600, cwd=tmp)
        env_mut = dict(env_clean, PYTHONPATH=os.path.join(tmp, "src"))
        b = subprocess.run(["/venv/bin/python", demo], env=env_mut, capture_output=True, text=True, timeout=600, cwd=tmp)
        out["demo_unchanged_exit"] = a.returncode
        out["demo_changed_exit"] = b.returncode
        out["demo_changed_tail"] = (b.stdout + b.stderr)[-300:]
        t = subprocess.run(["/venv/bin/python", "-m", "pytest", "-q", "-p", "no:cacheprovider", "--timeout=900", "/repo/tests"] +
                           sum((["--deselect", f"tests/test_ovld.py::{n}"] for n in DESELECT), []),
                           env=env_mut, capture_output=True, text=True, cwd=tmp)
        lines = t.stdout.strip().splitlines()
        out["tests"] = lines[-1] if lines else t.stderr[-200:]
        res = {}
        for c in checks:
            env = dict(os.environ, OVLD_SRC=os.path.join(tmp, "src"), VF_OUT=tmp)
            r = subprocess.run([os.path.join(HERE, "check"), c, tier], env=env, capture_output=True, text=True)
            mons = sorted({l.split()[0].replace("monitor=", "") for l in r.stdout.splitlines() if l.startswith("  monitor=")})
            nv = sum(1 for l in r.stdout.splitlines() if l.startswith("VIOLATION"))
            res[c] = {"exit": r.returncode, "violations": nv, "monitors": mons}
            if r.returncode == 2:
                res[c]["inconclusive"] = [l[:200] for l in r.stdout.splitlines() if l.startswith("INCONCLUSIVE")][:2]
            print(f"{c} exit={r.returncode} violations={nv} {','.join(mons)[:100]}", flush=True)
        out["checks"] = res
        out["caught_by"] = [c for c, v in res.items() if v["exit"] == 1]
    finally:
        shutil.rmtree(tmp, ignore_errors=True)
    print(json.dumps({k: v for k, v in out.items() if k != "checks"}, indent=1))
    with open(os.path.join(d, "seedcheck.json"), "w") as f:
        json.dump(out, f, indent=1)
    return 0


if __name__ == "__main__":
    sys.exit(main(sys.argv[1:]))
