import sys, random, collections, itertools, typing
from h import *
import pin
from ovld import Ovld
class A: pass
class B(A): pass
class C(B): pass
class E: pass
CL = [A, B, C, E, int, bool, object]
def gen_passed(rng, depth=0, ann=False):
    r = rng.random()
    if ann and r >= 0.95: r = 0.1
    if r < 0.5 or depth >= 2: return rng.choice(CL)
    if r < 0.75: return list[gen_passed(rng, depth+1, ann)]
    if r < 0.9: return dict[gen_passed(rng, depth+1, ann), gen_passed(rng, depth+1, ann)]
    if r < 0.95: return typing.List[gen_passed(rng, depth+1, ann)]
    return typing.Any
def origin(t): return typing.get_origin(t)
def sub(t1, t2):
    """independent model: is passed type t1 a subtype of T (annotation inner) t2"""
    if t1 is typing.Any: t1 = object
    if t2 is typing.Any: t2 = object
    o1, o2 = origin(t1), origin(t2)
    if o1 is None and o2 is None: return issubclass(t1, t2)
    if o2 is None: return issubclass(o1 or t1, t2)     # list[int] <: list, <: object
    if o1 is None: return False                          # list  !<: list[int]
    if not issubclass(o1, o2): return False
    a1, a2 = typing.get_args(t1), typing.get_args(t2)
    if len(a1) != len(a2): return False
    return all(sub(x, y) for x, y in zip(a1, a2))
def run(seed):
    rng = random.Random(seed)
    specs = []; inners = []
    for i in range(rng.randint(1, 6)):
        r = rng.random()
        if r < 0.7: inner = gen_passed(rng, ann=True); ann = type[inner]
        elif r < 0.8: inner = object; ann = type
        else: inner = None; ann = object
        t2 = rng.choice([object, int, str])
        specs.append(dict(mid=i, params=["t", "x"], anns={"t": ann, "x": t2}, body=[f"return ({i},)"])); inners.append((inner, t2))
    o = build(specs)
    out = []
    for _ in range(25):
        pt = gen_passed(rng); x = rng.choice([1, "s", 2.5])
        app = []
        for s, (inner, t2) in zip(specs, inners):
            if not isinstance(x, t2): continue
            if inner is None: app.append(s["mid"]); continue
            try:
                if sub(pt, inner): app.append(s["mid"])
            except TypeError: app = None; break
        if app is None: continue
        got = outcome(lambda: o(pt, x))
        if got[0] == "ran":
            if got[1][0] not in app: out.append(("ran-inapplicable", str(pt), x, got[1], app))
        elif got[0] == "none":
            if app: out.append(("none-but-applicable", str(pt), x, app))
        elif got[0] == "amb":
            if len(app) < 2: out.append(("amb-but", str(pt), x, app))
        else: out.append(("crash", str(pt), x, got))
        # preference: unique most specific by model
        if got[0] == "ran" and len(app) > 1:
            def beats(m1, m2):
                (i1, a1), (i2, a2) = inners[m1], inners[m2]
                s1 = (i1 is not None and (i2 is None or sub(i1, i2))) or (i1 is None and i2 is None)
                s2 = issubclass(a1, a2)
                strict = (i1 != i2 or a1 is not a2)
                return s1 and s2 and strict
            best = [m for m in app if all(m == n or beats(m, n) for n in app)]
            if len(best) == 1 and got[1][0] != best[0]: out.append(("not-most-specific", str(pt), x, got[1], best, app))
    return specs, out
stats = collections.Counter(); exs = collections.defaultdict(list)
for seed in range(int(sys.argv[1])):
    specs, out = run(seed)
    stats["progs"] += 1
    for x in out:
        stats[x[0]] += 1
        if len(exs[x[0]]) < 3: exs[x[0]].append((seed, [(s["mid"], str(s["anns"]["t"]), s["anns"]["x"].__name__) for s in specs], x))
print(stats)
for k, v in exs.items():
    for e in v: print(k, e)
