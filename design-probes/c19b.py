import sys, threading, time, os, collections
import ovld
from h import *
import pin
LIBDIR = os.path.dirname(ovld.__file__)
mon = sys.monitoring; TOOL = 3; E = mon.events
tls = threading.local()
class Sweep:
    """thread 0 runs until its k-th point, then thread 1 runs to completion, then 0 resumes"""
    def __init__(self, k): self.k=k; self.n=0; self.go_b=threading.Event(); self.b_done=threading.Event(); self.where=None
    def point(self, tid, where):
        if tid==0:
            self.n+=1
            if self.n==self.k:
                self.where=where; self.go_b.set(); self.b_done.wait(20)
sw=None
NOY=(len,isinstance,type,str,tuple,id,hasattr,getattr,issubclass)
def lib(code): return code.co_filename.startswith(LIBDIR) or code.co_filename.startswith("<ovld")
def pt(code, where):
    tid=getattr(tls,"tid",None)
    if tid is None or sw is None: return
    sw.point(tid,(os.path.basename(code.co_filename),code.co_name,code.co_firstlineno,where))
def on_start(code, off):
    if not lib(code): return mon.DISABLE
    pt(code,"start")
def on_jump(code, off, dst):
    if not lib(code): return mon.DISABLE
    if dst<off: pt(code,("jump",off))
def on_call(code, off, fn, a0):
    if not lib(code): return
    if any(fn is x for x in NOY): return
    pt(code,("call",off))
mon.use_tool_id(TOOL,"sweep")
mon.register_callback(TOOL,E.PY_START,on_start); mon.register_callback(TOOL,E.JUMP,on_jump); mon.register_callback(TOOL,E.CALL,on_call)
mon.set_events(TOOL,E.PY_START|E.JUMP|E.CALL)
class A: pass
class B(A): pass
class C(B): pass
P=["x"]
SPECS=[dict(mid=0,params=P,anns={"x":C},body=["return (0, call_next(x))"]),
       dict(mid=1,params=P,anns={"x":B},body=["return (1, call_next(x))"]),
       dict(mid=2,params=P,anns={"x":A},body=["return (2, call_next(x))"]),
       dict(mid=3,params=P,anns={"x":object},body=["return (3,)"])]
def run(k, a0, a1, prebuild=True):
    global sw
    o=build(SPECS)
    if prebuild: o.compile()
    d=o.dispatch
    seq=[repr(build(SPECS)(a0)), repr(build(SPECS)(a1))]
    sw=Sweep(k); res={}
    def w0():
        tls.tid=0
        try: res[0]=repr(d(a0))
        except BaseException as e: res[0]=f"EXC {type(e).__name__}: {str(e)[:60]}"
        finally: tls.tid=None; sw.go_b.set()
    def w1():
        sw.go_b.wait(20); tls.tid=1
        try: res[1]=repr(d(a1))
        except BaseException as e: res[1]=f"EXC {type(e).__name__}: {str(e)[:60]}"
        finally: tls.tid=None; sw.b_done.set()
    t0=threading.Thread(target=w0); t1=threading.Thread(target=w1); t0.start(); t1.start(); t0.join(30); t1.join(30)
    s=sw; sw=None
    after=[repr(d(a0)),repr(d(a1))]
    return res, seq, after, s
for label,a0,a1,pre in [("same-type, prebuilt",C(),C(),True),("C then B, prebuilt",C(),B(),True),("first call race (not prebuilt)",C(),C(),False)]:
    # count points
    res,seq,after,s=run(10**9,a0,a1,pre); N=s.n
    bad=collections.Counter(); ex={}
    for k in range(1,N+1):
        res,seq,after,s=run(k,a0,a1,pre)
        ok=(res.get(0)==seq[0] and res.get(1)==seq[1] and after==seq)
        if not ok:
            key=(res.get(0)!=seq[0],res.get(1)!=seq[1],after!=seq); bad[key]+=1; ex.setdefault(key,(k,s.where,res))
    print(label,"points",N,"bad schedules",sum(bad.values()),dict(bad))
    for kk,v in ex.items(): print("    ",kk,v)
