"""C03 - the dispatcher passes arguments, defaults, results and errors through intact.

Monitor: identity checks from inside the selected method body and at the caller.
  in the body : positional i `is` the i-th supplied object; keyword k `is` the supplied object; every omitted
                parameter `is` the method's **own** default object (defaults are unique sentinel objects per method
                and parameter, so another method's default or the dispatcher's MISSING placeholder are
                distinguishable); `self is` the instance;
  at the caller: the result `is` the object the body returned; a raised exception `is` the object the body raised
                and its traceback contains the method's own frame;
  acceptance  : if exactly one method is applicable to a call written in a *documented* shape (positionals
                positionally, keyword-only parameters by keyword), the call runs it - it is not rejected, and
                nothing else runs; if none is applicable nothing runs.
Workload: a signature-set grammar (required / optional / positional-only positionals, required / optional
keyword-only parameters, functions and methods with self, uniform or differing positional names) x **every**
call shape (number of positionals 0-3 x subset of keywords) x argument type assignments.
"""
import itertools

from .. import boot  # noqa: F401
from .. import tx as T
from ..methods import Default, UserExc, forget, make_method
from ..observe import VF, outcome, pin

from ovld import Ovld

ID = "C03"
LEVEL = "exploration"
RULE = ("cases = 1-4 methods, each with 0-3 positional parameters (trailing ones optional, possibly positional-only, "
        "names uniform or differing), 0-2 keyword-only parameters (required or optional), as plain function or as method "
        "with self x every call shape (0-3 positionals x every subset of {k1, k2}) x 3 type assignments; every 4th "
        "method raises instead of returning; distinct_nontrivial = distinct (signature set, call shape) pairs in which "
        "exactly one method was applicable and ran")
ASSUMPTIONS = [
    "documented call shapes: positional parameters positionally, keyword-only parameters by keyword "
    "(positional-by-keyword is only documented for a narrow region and is not generated)",
    "applicability by Python's isinstance on the three builtin argument classes",
]
REPORT_COUNTERS = ["signature_sets", "calls", "unique_applicable_ran", "params_identity_checked", "defaults_identity_checked",
                   "results_identity_checked", "exceptions_identity_checked", "none_applicable_checked", "self_checked",
                   "entry_shapes", "zero_positional_calls", "kw_with_omitted_optional", "nested_delegations_checked",
                   "sets_with_never_true_decoy", "cases_with_always_equal_arguments",
                   "keyword_for_positional_probes", "keyword_for_positional_probes_ran"]

TYPES = ["int", "str", "float"]


def plan(tier):
    n = 1500 if tier == "quick" else 30000
    return {"cases": n, "params": {}, "timeout_s": 1500 if tier == "quick" else 7200,
            "min": {"unique_applicable_ran": 5_000, "defaults_identity_checked": 2_000, "exceptions_identity_checked": 500,
                    "self_checked": 1_000, "cases_with_always_equal_arguments": 100, "zero_positional_calls": 500, "kw_with_omitted_optional": 500}}


def gen_case(rng, params, idx):
    # keyword-only parameters are sometimes called like things the generated entry point uses itself
    kwn = rng.choice([["k1", "k2"], ["k1", "k2"], ["k1", "type"], ["method", "k2"], ["k1", "isinstance"]])
    uniform = rng.random() < 0.6
    is_method = rng.random() < 0.3
    methods = []
    for mid in range(rng.randint(1, 4)):
        npos = rng.randint(0, 3)
        nopt = rng.randint(0, npos) if rng.random() < 0.5 else 0
        po = rng.random() < 0.2
        pos = []
        for i in range(npos):
            name = f"p{i}" if uniform else f"p{i}_{rng.choice('ab')}"
            pos.append({"n": name, "t": rng.choice(TYPES), "opt": i >= npos - nopt, "po": po})
        kws = []
        if rng.random() < 0.5:
            for k in sorted(rng.sample(kwn, rng.randint(0, 2))):
                kws.append({"n": k, "t": rng.choice(TYPES), "req": rng.random() < 0.5})
        methods.append({"mid": mid, "pos": pos, "kw": kws, "prio": 0, "self": is_method,
                        "kind": "raise" if rng.random() < 0.25 else "ret", "rewritten": rng.random() < 0.4})
    if rng.random() < 0.35:
        # a decoy: the same signature as one of the methods with one annotation replaced by a value condition that
        # never holds - every call aimed at that method first goes through the generated condition check and falls
        # through to it: the arguments, defaults and keywords must survive that path unchanged
        # (the condition sits on a *required* parameter: on an omitted optional one it would not be evaluated, and the
        # decoy and its original would coincide on everything supplied - an unspecified tie)
        cands = [m for m in methods if any(not p.get("opt") for p in m["pos"]) or any(k["req"] for k in m["kw"])]
        if cands:
            src = rng.choice(cands)
            d = {"mid": 10 + src["mid"], "pos": [dict(p) for p in src["pos"]], "kw": [dict(k) for k in src["kw"]], "prio": 0,
                 "self": is_method, "kind": "ret", "rewritten": False, "decoy": True}
            slot = rng.choice([p for p in d["pos"] if not p.get("opt")] + [k for k in d["kw"] if k["req"]])
            slot["t"] = ["D", slot["t"], "never"]
            methods.append(d)
    return {"methods": methods, "is_method": is_method, "valseed": rng.randrange(1 << 30), "kw_names": kwn,
            "predecessor": rng.choice([m["mid"] for m in methods if not m.get("decoy")]) if rng.random() < 0.3 else None}


class Ret:
    __slots__ = ("mid",)

    def __init__(self, mid):
        self.mid = mid


def check_case(spec, res):
    import random
    pin()
    env = T.Env([])

    class IntV(int):
        pass

    class StrV(str):
        pass

    class FloatV(float):
        pass

    if spec["valseed"] % 3 == 0:
        # argument objects whose == answers "equal" to anything (always-equal test doubles; expression builders whose
        # == returns a truthy node): supplied arguments must still be told from omitted ones
        res.count("cases_with_always_equal_arguments")
        for c in (IntV, StrV, FloatV):
            c.__eq__ = lambda s, o: True
            c.__ne__ = lambda s, o: False
            c.__hash__ = lambda s: 7
    mk = {"int": lambda: IntV(7), "str": lambda: StrV("s"), "float": lambda: FloatV(2.5)}
    py = {"int": int, "str": str, "float": float}
    vf = VF()
    vf.keep_locals = True
    made = {}      # objects returned / raised by bodies

    class Box:
        def ret(self, mid):
            r = Ret(mid)
            made["ret"] = r
            return r

        def exc(self, mid):
            e = UserExc(mid)
            made["exc"] = e
            return e

    ns = {"__box": Box()}
    files, fns = [], {}
    o = Ovld()
    for m in spec["methods"]:
        body = [f"return __box.ret({m['mid']})"] if m["kind"] == "ret" else [f"raise __box.exc({m['mid']})"]
        if m.get("rewritten"):
            # the mere mention of recurse sends the method through the source rewriter: defaults, keyword-only
            # defaults and everything else must survive that
            body = ["__unused = recurse"] + body
        pred = None
        if spec.get("predecessor") == m["mid"] and m["pos"]:
            # history: an earlier definition with the *same signature* but other parameter names is registered
            # first, replaced by this one, and then unregistered - only this one's names count afterwards
            pm = dict(m, pos=[dict(p_, n=p_["n"] + "_old") for p_ in m["pos"]])
            pred, pf = make_method(pm, env, vf, ["return 'predecessor'"], tag="c03", shared_ns=ns)
            files.append(pf)
            o.register(pred)
            res.count("methods_replacing_a_renamed_predecessor")
        fn, f = make_method(m, env, vf, body, tag="c03", shared_ns=ns)
        files.append(f)
        fns[m["mid"]] = (fn, f)
        o.register(fn)
        if pred is not None:
            o.unregister(pred)
    try:
        o.compile()
    except TypeError as e:
        res.count("naming_rule_rejections")    # documented: inconsistent names across positions
        forget(files)
        return
    res.count("signature_sets")
    if any(m.get("decoy") for m in spec["methods"]):
        res.count("sets_with_never_true_decoy")
    res.sample(spec)
    import linecache
    entry = o.dispatch.__code__.co_filename
    ent = linecache.cache.get(entry)
    if ent:
        res.nontrivial(["entry", ent[2][2].strip()])
        res.count("entry_shapes")
    holder = None
    if spec["is_method"]:
        holder = type("Holder", (), {"f": o})()
    rng = random.Random(spec["valseed"])
    names = tuple(x for x in (getattr(o, "shortname", None), getattr(o, "__name__", None)) if x)
    sigkey = [[[T.tname(p["t"]), p.get("opt", False), p.get("po", False)] for p in m["pos"]] +
              [[k["n"], T.tname(k["t"]), k["req"]] for k in m["kw"]] for m in spec["methods"]]
    maxpos = max(len(m["pos"]) for m in spec["methods"])
    real = [m for m in spec["methods"]]
    minreq = min(sum(1 for p in m["pos"] if not p.get("opt")) for m in real)
    by_keyword_ok = (maxpos - minreq <= 1 and not any(p.get("po") for m in real for p in m["pos"])
                     and all(p["n"] == f"p{i}" for m in real for i, p in enumerate(m["pos"]))
                     and not ({p["n"] for m in real for p in m["pos"]} & {k["n"] for m in real for k in m["kw"]}))
    for npos_given in range(0, 4):
        K1, K2 = spec.get("kw_names", ["k1", "k2"])
        for kwset in ((), (K1,), (K2,), (K1, K2)):
            for rep in range(3):
                pt = [rng.choice(TYPES) for _ in range(npos_given)]
                kt = {k: rng.choice(TYPES) for k in kwset}
                if rep < 2:
                    # aim at one method's declared types so that the call is applicable to something
                    cands = [m for m in spec["methods"] if not m.get("decoy") and len(m["pos"]) >= npos_given
                             and set(kwset) <= {k["n"] for k in m["kw"]}]
                    if cands:
                        m0 = rng.choice(cands)
                        pt = [m0["pos"][i]["t"] for i in range(npos_given)]
                        kt = {k["n"]: k["t"] for k in m0["kw"] if k["n"] in kwset}
                pargs = [mk[t]() for t in pt]
                kargs = {k: mk[t]() for k, t in kt.items()}
                app = []
                for m in spec["methods"]:
                    if m.get("decoy"):
                        continue        # its value condition never holds
                    req = sum(1 for p in m["pos"] if not p.get("opt"))
                    if not (req <= npos_given <= len(m["pos"])):
                        continue
                    if not all(isinstance(a, py[p["t"]]) for a, p in zip(pargs, m["pos"])):
                        continue
                    kwd = {k["n"]: k for k in m["kw"]}
                    if not set(kargs) <= set(kwd):
                        continue
                    if any(k["req"] and k["n"] not in kargs for k in m["kw"]):
                        continue
                    if not all(isinstance(kargs[k], py[kwd[k]["t"]]) for k in kargs):
                        continue
                    app.append(m)
                res.ev()
                res.count("calls")
                if npos_given == 0:
                    res.count("zero_positional_calls")
                if kargs and npos_given < maxpos:
                    res.count("kw_with_omitted_optional")
                made.clear()
                target = holder.f if holder is not None else o
                out = outcome(lambda: target(*pargs, **kargs), vf, names)
                shape = {"positionals": pt, "keywords": kt}
                if len(app) == 1:
                    m = app[0]
                    finding = _f4(spec, npos_given, kargs)
                    if out[0] in ("none", "bind", "amb", "bind-method", "exc"):
                        res.violation("applicable-call-rejected", [out[0], npos_given == 0], spec,
                                      observed={"call_shape": shape, "method": m["mid"], "outcome": [str(x) for x in out[:2]]},
                                      acceptable="the unique applicable method runs", finding=finding)
                        continue
                    entries = vf.entries
                    if not entries or entries[0][0] != m["mid"] or len(entries) != 1:
                        res.violation("wrong-method-ran", [npos_given == 0], spec,
                                      observed={"call_shape": shape, "entered": [e[0] for e in entries], "expected": m["mid"]},
                                      acceptable="the unique applicable method runs", finding=finding)
                        continue
                    res.count("unique_applicable_ran")
                    res.nontrivial([sigkey, npos_given, sorted(kargs)])
                    loc = entries[0][1]
                    if by_keyword_ok and npos_given:
                        # documented: when every method names its positional parameters the same (and the numbers of
                        # required / accepted positionals differ by at most one) they may be given by keyword
                        names_ = [p["n"] for p in m["pos"][:npos_given]]
                        saved_made, saved_entries = dict(made), list(vf.entries)
                        vf.clear()
                        out2 = outcome(lambda: target(**dict(zip(names_, pargs)), **kargs), vf, names)
                        res.count("positionals_given_by_keyword")
                        e2 = vf.entries
                        if not e2 or e2[0][0] != m["mid"] or any(e2[0][1][n_] is not a for n_, a in zip(names_, pargs)):
                            res.violation("positional-by-keyword-differs", [out2[0]], spec,
                                          observed={"call_shape": shape, "by_keyword": names_, "outcome": [str(x) for x in out2[:2]],
                                                    "entered": [e[0] for e in e2]},
                                          acceptable="the same method receives the same objects")
                        vf.clear()
                        vf.entries.extend(saved_entries)
                        made.clear()
                        made.update(saved_made)
                    for i, p in enumerate(m["pos"]):
                        got = loc[p["n"]]
                        if i < npos_given:
                            res.count("params_identity_checked")
                            if got is not pargs[i]:
                                res.violation("positional-not-passed-through", [i], spec,
                                              observed={"call_shape": shape, "param": p["n"], "received": repr(got)[:40]},
                                              acceptable="the supplied object")
                        else:
                            res.count("defaults_identity_checked")
                            if not (isinstance(got, Default) and got.mid == m["mid"] and got.name == p["n"]):
                                res.violation("omitted-positional-not-own-default", [type(got).__name__], spec,
                                              observed={"call_shape": shape, "param": p["n"], "received": repr(got)[:40]},
                                              acceptable="the method's own default")
                    for k in m["kw"]:
                        got = loc[k["n"]]
                        if k["n"] in kargs:
                            res.count("params_identity_checked")
                            if got is not kargs[k["n"]]:
                                res.violation("keyword-not-passed-through", [k["n"]], spec,
                                              observed={"call_shape": shape, "param": k["n"], "received": repr(got)[:40]},
                                              acceptable="the supplied object")
                        else:
                            res.count("defaults_identity_checked")
                            if not (isinstance(got, Default) and got.mid == m["mid"] and got.name == k["n"]):
                                res.violation("omitted-keyword-not-own-default", [type(got).__name__], spec,
                                              observed={"call_shape": shape, "param": k["n"], "received": repr(got)[:40]},
                                              acceptable="the method's own default")
                    if spec["is_method"]:
                        res.count("self_checked")
                        if loc.get("self") is not holder:
                            res.violation("self-not-instance", [], spec, observed={"call_shape": shape},
                                          acceptable="self is the instance")
                    if m["kind"] == "ret":
                        res.count("results_identity_checked")
                        if out[0] != "ran" or out[2] is not made.get("ret"):
                            res.violation("result-not-passed-through", [out[0]], spec,
                                          observed={"call_shape": shape, "outcome": [str(x) for x in out[:3]]},
                                          acceptable="the object the body returned")
                    else:
                        res.count("exceptions_identity_checked")
                        ok = out[0] == "user" and out[1] == m["mid"]
                        if not ok:
                            res.violation("exception-not-passed-through", [out[0]], spec,
                                          observed={"call_shape": shape, "outcome": [str(x) for x in out[:3]]},
                                          acceptable="the exception the body raised")
                        else:
                            try:
                                target(*pargs, **kargs)
                            except UserExc as e:
                                tb, frames = e.__traceback__, []
                                while tb is not None:
                                    frames.append(tb.tb_frame.f_code.co_filename)
                                    tb = tb.tb_next
                                if e is not made.get("exc") or fns[m["mid"]][1] not in frames:
                                    res.violation("exception-identity-or-traceback", [e is made.get("exc")], spec,
                                                  observed={"call_shape": shape, "frames": frames[-3:]},
                                                  acceptable="same exception object, traceback through the method")
                elif len(app) == 0:
                    res.count("none_applicable_checked")
                    if vf.entries:
                        res.violation("inapplicable-method-ran", [npos_given == 0], spec,
                                      observed={"call_shape": shape, "entered": [e[0] for e in vf.entries]},
                                      acceptable="no method body runs", finding=None)
    # Call shapes outside the documented rules (a positional parameter given by keyword while an earlier optional one
    # is omitted, names differing elsewhere) may be rejected - but whenever a method *runs*, every keyword the caller
    # supplied must have arrived under its name: "never a silently dropped keyword"
    target = holder.f if holder is not None else o
    pnames = sorted({(i, p["n"]) for m in spec["methods"] for i, p in enumerate(m["pos"]) if i >= 1 and not p.get("po")})
    for i, n_ in pnames:
        for j in range(0, i + 1):
            tys = [rng.choice(TYPES) for _ in range(j)]
            cands = [m for m in spec["methods"] if len(m["pos"]) > i and m["pos"][i]["n"] == n_ and not m.get("decoy")]
            if cands:
                m0 = rng.choice(cands)
                tys = [m0["pos"][q]["t"] for q in range(j)]
                kty = m0["pos"][i]["t"]
            else:
                kty = rng.choice(TYPES)
            pargs = [mk[t]() for t in tys]
            kv = mk[kty]()
            vf.clear()
            made.clear()
            out = outcome(lambda: target(*pargs, **{n_: kv}), vf, names)
            res.count("keyword_for_positional_probes")
            if out[0] == "ran" or vf.entries:
                res.count("keyword_for_positional_probes_ran")
                e0 = vf.entries[0] if vf.entries else None
                if e0 is None or e0[1].get(n_) is not kv:
                    res.violation("keyword-silently-dropped", [j, i], spec,
                                  observed={"positionals_given": j, "keyword": n_, "entered": e0[0] if e0 else None,
                                            "received": repr(e0[1].get(n_))[:40] if e0 else None},
                                  acceptable="an error, or the method receives the supplied object under that name")
    _delegation_passthrough(spec, res, env, mk, Box, made)
    forget(files)


def _delegation_passthrough(spec, res, env, mk, Box, made):
    """recurse / call_next issued from inside a method are calls too: the objects written at the call site - also
    when one such call is nested in the argument list of another - must arrive unchanged and in place."""
    vf = VF()
    vf.keep_locals = True
    selfp = "self, " if spec["is_method"] else ""
    ns = {"__box": Box(), "__vf": vf}
    from ..methods import load_source
    src = (f"def f({selfp}a: list):\n    __vf.enter(0, locals())\n    return recurse(a[0], recurse(a[1], a[2]))\n")
    src2 = (f"def f({selfp}a: int, b: object):\n    __vf.enter(1, locals())\n    return __box.ret(1)\n")
    src3 = (f"def f({selfp}a: tuple):\n    __vf.enter(2, locals())\n    return call_next(a) if len(a) > 5 else recurse(a[0], b=recurse(a[1], a[2])) if False else recurse(a[1], recurse(a[0], a[2]))\n")
    o = Ovld()
    files = []
    for s_ in (src, src2, src3):
        nsx, f = load_source(s_, ns, tag="c03d", shared=True)
        files.append(f)
        o.register(nsx["f"])
    holder = type("Holder", (), {"f": o})() if spec["is_method"] else None
    target = holder.f if holder is not None else o
    for container in (list, tuple):
        x, y, z = mk["int"](), mk["int"](), mk["str"]()
        arg = container([x, y, z])
        vf.clear()
        made.clear()
        out = outcome(lambda: target(arg), vf)
        res.ev()
        res.count("nested_delegations_checked")
        ent = vf.entries
        first, second = (x, y) if container is list else (y, x)
        ok = (out[0] == "ran" and len(ent) == 3 and ent[1][0] == 1 and ent[2][0] == 1
              and ent[1][1]["a"] is second and ent[1][1]["b"] is z
              and ent[2][1]["a"] is first and isinstance(ent[2][1]["b"], Ret))
        if ok and holder is not None:
            ok = all(e[1].get("self") is holder for e in ent)
        if not ok:
            res.violation("delegated-arguments-not-passed-through", [container.__name__, out[0]], spec,
                          observed={"outcome": [str(v) for v in out[:2]],
                                    "entries": [[e[0], {k: repr(v)[:30] for k, v in e[1].items()}] for e in ent][:4]},
                          acceptable="inner call receives (a[1], a[2]), outer call receives (a[0], inner result), by identity")
    forget(files)


def _f4(spec, npos_given, kargs):
    """F4 region: a call with zero positional arguments and no keyword, while no method is completely
    parameterless: the empty lookup key has no resolution path."""
    if npos_given == 0 and not kargs and not any(len(m["pos"]) == 0 and not m["kw"] for m in spec["methods"]):
        return "F4"
    return None
