"""F53 (C07): a method registers something while it runs, then delegates with call_next.  Before the fix the
continuation was treated as a fresh call and the method itself was entered again (['int', 'int', ..., 'object'])."""
from ovld import call_next, ovld

log = []


@ovld
def f(x: int):
    log.append("int")
    if len(log) < 5:
        @f.register
        def _(x: bytes):
            return "bytes"
    return call_next(x)


@f.register
def f(x: object):
    log.append("object")
    return "done"


assert f(1) == "done"
assert log == ["int", "object"], log
print("ok")
