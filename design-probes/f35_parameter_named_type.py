from ovld import ovld, recurse

@ovld
def show(x: int, type: str = "dec"):
    return f"{type}:{x}"

@ovld
def show(xs: list, type: str = "dec"):
    return [recurse(x, type) for x in xs]

def plain(xs, type="dec"):
    return [f"{type}:{x}" for x in xs]

try:
    got = show([1, 2], "hex")
except Exception as e:
    got = f"{type(e).__name__}: {e}"
print(got); print(plain([1, 2], "hex"))
print("PASS" if got == plain([1, 2], "hex") else "FAIL")
