import random, itertools, sys, collections, abc, typing
from h import *
import pin
from ovld import Ovld
@typing.runtime_checkable
class HasFly(typing.Protocol):
    def fly(self): ...
class Shape(abc.ABC): pass
class Hook(abc.ABC):
    @classmethod
    def __subclasshook__(cls, C): return hasattr(C, "hooked") or NotImplemented
def gen_h(rng, n):
    classes = []
    for i in range(n):
        for _ in range(10):
            k = rng.choice([0,1,1,2,2]) if classes else 0
            bases = tuple(rng.sample(classes, min(k, len(classes))))
            bases = tuple(b for b in bases if not any(o is not b and issubclass(o, b) for o in bases))
            ns = {}
            if rng.random() < 0.25: ns["fly"] = lambda self: 1
            if rng.random() < 0.2: ns["hooked"] = True
            try: c = type(f"K{i}", bases or (object,), ns); classes.append(c); break
            except TypeError: continue
        if rng.random() < 0.2: Shape.register(classes[-1])
    return classes
def beats(m1, m2, pos_n, kws):
    if m1["prio"] != m2["prio"]: return m1["prio"] > m2["prio"]
    t1 = [m1["pos"][i] for i in range(pos_n)] + [m1["kw"][k] for k in kws]
    t2 = [m2["pos"][i] for i in range(pos_n)] + [m2["kw"][k] for k in kws]
    if t1 != t2: return all(issubclass(a, b) for a, b in zip(t1, t2))
    if m1["sig"] == m2["sig"]: return m1["idx"] > m2["idx"]
    return None
def model(methods, pos_types, kw_types):
    n = len(pos_types); kws = sorted(kw_types)
    app = []
    for m in methods:
        if len(m["pos"]) != n: continue
        if not all(issubclass(a, t) for a, t in zip(pos_types, m["pos"])): continue
        if not set(kws) <= set(m["kw"]): continue
        if set(m["kwreq"]) - set(kws): continue
        if not all(issubclass(kw_types[k], m["kw"][k]) for k in kws): continue
        app.append(m)
    if not app: return {"none"}
    winners = []
    for m in app:
        r = [beats(m, o, n, kws) for o in app if o is not m]
        if any(x is None for x in r): return {"*"}
        if all(r): winners.append(m)
    return {winners[0]["mid"]} if len(winners) == 1 else {"amb"}
def run(seed):
    rng = random.Random(seed)
    classes = gen_h(rng, rng.randint(2, 6)); pool = classes + [object, HasFly, Shape, Hook]
    npos = rng.choice([1, 1, 2]); KW = ["k1", "k2"]
    methods = []; specs = []
    for i in range(rng.randint(1, 7)):
        if methods and rng.random() < 0.2:
            src = rng.choice(methods); m = dict(src, mid=i, idx=i)      # repeated signature
        else:
            pos = tuple(rng.choice(pool) for _ in range(npos))
            kwn = rng.sample(KW, rng.choice([0, 0, 1, 2])); kw = {k: rng.choice(pool) for k in kwn}
            kwreq = [k for k in kwn if rng.random() < 0.6]
            prio = rng.choice([0, 0, 0, 1, -1])
            m = dict(mid=i, idx=i, pos=pos, kw=kw, kwreq=kwreq, prio=prio)
            m["sig"] = (tuple(c.__name__ for c in pos), tuple(sorted((k, v.__name__) for k, v in kw.items())), tuple(sorted(kwreq)), prio)
        methods.append(m)
        params = [f"a{j}" for j in range(npos)]
        if m["kw"]: params.append("*")
        for k in m["kw"]: params.append(k if k in m["kwreq"] else f"{k}=None")
        anns = {**{f"a{j}": t for j, t in enumerate(m["pos"])}, **m["kw"]}
        specs.append(dict(mid=i, params=params, anns=anns, body=[f"return ({i},)"], prio=m["prio"]))
    o = build(specs)
    try: o.compile()
    except Exception as e: return None, None, [("build", type(e).__name__, str(e)[:60])]
    insts = [c for c in classes] + [object]
    mism = []
    for _ in range(40):
        pt = tuple(rng.choice(insts) for _ in range(npos)); kws = rng.sample(KW, rng.choice([0, 0, 1, 2])); kt = {k: rng.choice(insts) for k in kws}
        exp = model(methods, pt, kt)
        if "*" in exp: continue
        got = outcome(lambda: o(*[t() for t in pt], **{k: t() for k, t in kt.items()}))
        g = got[1][0] if got[0] == "ran" else ("amb" if got[0] == "amb" else "none" if got[0] in ("none",) or (got[0] == "typeerror" and ("argument" in got[2])) else got)
        if g not in exp: mism.append(([t.__name__ for t in pt], {k: t.__name__ for k, t in kt.items()}, g, exp))
    return classes, methods, mism
stats = collections.Counter(); exs = {}
for seed in range(int(sys.argv[1])):
    classes, methods, mism = run(seed)
    stats["progs"] += 1
    for m in mism:
        if m[0] == "build": kind = m; 
        else: kind = (("method" if isinstance(m[2], int) else str(m[2])[:50]), tuple(sorted("method" if isinstance(e, int) else e for e in m[3])))
        stats[kind] += 1
        if kind not in exs and classes: exs[kind] = (seed, [(c.__name__, [b.__name__ for b in c.__bases__], hasattr(c, "fly"), hasattr(c, "hooked"), issubclass(c, Shape)) for c in classes], [(x["mid"], [t.__name__ for t in x["pos"]], {k: v.__name__ for k, v in x["kw"].items()}, x["kwreq"], x["prio"]) for x in methods], m)
print(stats)
for k, v in exs.items(): print(k, "\n   ", v)
