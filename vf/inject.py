"""Line-level fault injector (sys.monitoring LINE events restricted to library code).

While armed it counts the source lines the library executes (files under $OVLD_SRC/ovld and the
dispatchers it generates, ``<ovld:...>``); at the n-th such line it raises ``Injected`` - a
BaseException, i.e. what an interrupt arriving at that moment looks like.  Callbacks return DISABLE
for every other code object, so user / harness / stdlib code runs at full speed.
"""
import os
import sys

from . import boot

TOOL = 4
LIBDIR = os.path.join(os.path.realpath(boot.OVLD_SRC), "ovld") + os.sep


class Injected(BaseException):
    pass


class Injector:
    def __init__(self):
        self.armed = False
        self.n = 0
        self.target = -1
        self.where = None
        self.by_function = {}
        self.installed = False
        self.writer_lines = []      # during count(): indices of lines inside functions that store to shared state
        self._writer = {}

    def install(self):
        if self.installed:
            return
        mon = sys.monitoring
        if mon.get_tool(TOOL) is None:
            mon.use_tool_id(TOOL, "vf-inject")
        me = self
        is_lib = {}

        def on_line(code, line):
            fn = code.co_filename
            lib = is_lib.get(fn)
            if lib is None:
                lib = is_lib[fn] = fn.startswith("<ovld:") or (not fn.startswith("<") and os.path.realpath(fn).startswith(LIBDIR))
            if not lib:
                return mon.DISABLE
            if not me.armed:
                return None
            me.n += 1
            if me.target == -1:
                w = me._writer.get(code)
                if w is None:
                    from .sched import _writes_state
                    w = me._writer[code] = _writes_state(code)
                if w:
                    me.writer_lines.append(me.n)
            if me.n == me.target:
                me.where = (os.path.basename(fn) if not fn.startswith("<ovld:") else "<ovld:generated>", code.co_name, line)
                me.armed = False
                raise Injected()
            return None

        mon.register_callback(TOOL, mon.events.LINE, on_line)
        mon.set_events(TOOL, mon.events.LINE)
        self.installed = True

    def count(self, thunk):
        """run thunk with counting only; returns number of library line events"""
        self.n, self.target, self.where, self.armed = 0, -1, None, True
        self.writer_lines = []
        try:
            thunk()
        finally:
            self.armed = False
        return self.n

    def run(self, thunk, n):
        """run thunk raising Injected at the n-th library line.  -> ("injected", where) | ("completed", result)
        | ("raised", exception)"""
        self.n, self.target, self.where, self.armed = 0, n, None, True
        try:
            r = thunk()
        except Injected:
            self.armed = False
            key = f"{self.where[0]}:{self.where[1]}"
            self.by_function[key] = self.by_function.get(key, 0) + 1
            return ("injected", self.where)
        except BaseException as e:  # noqa: BLE001
            self.armed = False
            if isinstance(e, (KeyboardInterrupt, SystemExit)):
                raise
            return ("raised", e)
        finally:
            self.armed = False
        return ("completed", r)


INJECTOR = Injector()
