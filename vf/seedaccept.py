"""Accept a seeded change into /verif/seeded/<name>/ after confirming it:
    /venv/bin/python -m vf.seedaccept <src-dir> <name> <property> "<what it needs to manifest>" [--checks all|C01,..]
"""
import json
import os
import shutil
import subprocess
import sys

HERE = os.path.dirname(os.path.dirname(os.path.abspath(__file__)))


def main(argv):
    src, name, prop, needs = argv[:4]
    checks = "all"
    if "--checks" in argv:
        checks = argv[argv.index("--checks") + 1]
    dst = os.path.join(HERE, "seeded", name)
    os.makedirs(dst, exist_ok=True)
    for f in ("patch.diff", "demo.py", "notes.md"):
        if os.path.exists(os.path.join(src, f)) and os.path.abspath(src) != os.path.abspath(dst):
            shutil.copy(os.path.join(src, f), os.path.join(dst, f))
    r = subprocess.run([sys.executable, "-m", "vf.seedcheck", dst, "--checks", checks], cwd=HERE, capture_output=True, text=True)
    print(r.stdout[-1500:])
    sc = json.load(open(os.path.join(dst, "seedcheck.json")))
    meta = {
        "property": prop,
        "needs_to_manifest": needs,
        "confirmed": {
            "patch_applies_to_repo_head": sc.get("patch_applies"),
            "demo_exit_unchanged": sc.get("demo_unchanged_exit"),
            "demo_exit_with_change": sc.get("demo_changed_exit"),
            "repository_tests_with_change": sc.get("tests"),
        },
        "ran": f"python -m vf.seedcheck seeded/{name} --checks {checks} (quick tier, patch applied to a scratch copy of /repo/src, checks pointed at it through OVLD_SRC)",
        "caught_by": sc.get("caught_by"),
        "checks": {c: {"exit": v["exit"], "monitors": v["monitors"]} for c, v in (sc.get("checks") or {}).items()},
        "repo_head": subprocess.run(["git", "-C", "/repo", "rev-parse", "--short", "HEAD"], capture_output=True, text=True).stdout.strip(),
    }
    os.remove(os.path.join(dst, "seedcheck.json"))
    with open(os.path.join(dst, "meta.json"), "w") as f:
        json.dump(meta, f, indent=1)
    print("caught by:", meta["caught_by"])


if __name__ == "__main__":
    main(sys.argv[1:])
