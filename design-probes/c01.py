import sys, random, collections, itertools, typing
from typing import Literal
from h import *
import h, pin
from ovld import Dependent
from ovld.types import Union, Intersection, Exactly, StrictSubclass, HasMethod
ENT = []
class VF3:
    def enter(self, mid, loc): ENT.append((mid, dict(loc)))
class MyInt(int): pass
def gen_type(rng, classes, depth=0):
    r = rng.random()
    if depth >= 2 or r < 0.4: return rng.choice(classes + [object, int, str, MyInt, bool])
    if r < 0.5: return Union[gen_type(rng, classes, depth+1), gen_type(rng, classes, depth+1)]
    if r < 0.58: return Intersection[gen_type(rng, classes, depth+1), gen_type(rng, classes, depth+1)]
    if r < 0.64: return Exactly[rng.choice(classes + [int])]
    if r < 0.70: return StrictSubclass[rng.choice(classes + [int])]
    if r < 0.76: return Literal[tuple(rng.sample([0, 1, 2, 3], rng.choice([1, 1, 2])))]
    if r < 0.86:
        b = rng.choice([int, object, MyInt]); k = rng.choice([0, 1, 2])
        fn = [lambda x: isinstance(x, int) and x > 0, lambda x: isinstance(x, int) and x % 2 == 0, lambda x: True][k]
        return Dependent[b, fn]
    if r < 0.92: return tuple[gen_type(rng, classes, depth+1)]
    if r < 0.96: return list[rng.choice([int, str])]
    return HasMethod["bit_length"]
def run(seed):
    rng = random.Random(seed)
    classes = gen_hierarchy(rng, rng.randint(2, 5))
    npos = rng.choice([1, 2, 2, 3]); params = [f"a{i}" for i in range(npos)]
    specs = []
    for i in range(rng.randint(2, 7)):
        ar = npos if rng.random() < 0.8 else rng.randint(1, 3)
        ps = [f"a{j}" for j in range(ar)]
        nopt = rng.choice([0, 0, 1]) if ar > 1 else 0
        anns = {p: gen_type(rng, classes) for p in ps}
        specs.append(dict(mid=i, params=[p if j < ar - nopt else f"{p}=None" for j, p in enumerate(ps)], anns=anns, body=[f"return ({i}, call_next({', '.join(ps)}))" if rng.random() < 0.3 else f"return ({i},)"], prio=rng.choice([0, 0, 1])))
    try: o = build(specs)
    except Exception as e: return specs, [("build", type(e).__name__, str(e)[:80])], 0
    for fn in o.defns.values(): fn.__globals__["__vf"] = VF3()
    vals = [c() for c in classes] + [object(), 0, 1, 2, -3, True, MyInt(2), MyInt(3), "s", (1,), ("s",), (MyInt(2),), [1], ["s"], [], None]
    out = []; n = 0
    for _ in range(60):
        k = rng.randint(1, 3); args = tuple(rng.choice(vals) for _ in range(k))
        ENT.clear()
        try: o(*args)
        except TypeError as e:
            s = str(e)
            if not ("No method" in s or "Ambiguous" in s or "positional argument" in s): out.append(("crash", [repr(a)[:12] for a in args], s[:80]))
        except Exception as e: out.append(("crash", [repr(a)[:12] for a in args], type(e).__name__ + str(e)[:60]))
        for mid, loc in ENT:
            n += 1
            sp = specs[mid]
            for p, ann in sp["anns"].items():
                v = loc[p]
                idx = int(p[1:])
                if idx >= len(args): continue     # omitted optional
                try: ok = isinstance(v, ann)
                except Exception as e: ok = f"isinstance-exc {e}"
                if ok is not True: out.append(("C01", mid, p, str(ann), repr(v)[:20], ok))
    return specs, out, n
stats = collections.Counter(); exs = collections.defaultdict(list); N = 0
for seed in range(int(sys.argv[1])):
    specs, out, n = run(seed); N += n
    stats["progs"] += 1
    for x in out:
        key = x[0] if x[0] != "crash" else ("crash", x[2][:40])
        stats[key] += 1
        if len(exs[key]) < 2: exs[key].append((seed, [(s["mid"], s["params"], {k: str(v) for k, v in s["anns"].items()}) for s in specs], x))
print("entries checked", N); print(stats)
for k, v in exs.items():
    for e in v: print(k, e)
