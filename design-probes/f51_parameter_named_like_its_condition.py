"""F51 (C10): a keyword-only parameter called like the condition it is annotated with.  Before the fix every call
reaching the value-dependent dispatcher raised AttributeError: 'int' object has no attribute 'check'."""
from ovld import Dependent, ovld
from ovld.dependent import dependent_check


@dependent_check
def positive(value):
    return value > 0


@ovld
def f(x: int, *, positive: Dependent[int, positive] = 1):
    return "pos"


@ovld
def f(x: int, *, positive: int = 1):
    return "int"


assert (f(1, positive=3), f(1, positive=-3)) == ("pos", "int")
print("ok")
