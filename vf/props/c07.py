"""C07 - call_next walks down the resolution order one method at a time.

Monitor: every generated body returns a tree naming itself and the result of its delegation
(call_next with the same arguments, f.next, call_next with *other* arguments, recurse), so one outer
call yields the complete sequence of methods entered.  Oracle: vf/refmodel.py:expected - at each
delegation from method m the expected next method is the winner, under the documented rule, of the
method set without m and everything ranked above it for the delegated arguments (iterated removal);
terminal 'No method' below the last one, 'Ambiguous' where the next rank is tied, a fresh call when m
is not applicable to the delegated arguments.  Structural laws checked independently of the model:
along a chain that keeps its arguments no method id repeats and priorities never increase.
"""
from .. import boot  # noqa: F401
from .. import gen, tx as T
from .. import refmodel as R
from .. import frozen
from ..observe import pin
from ..prog import Program, norm

ID = "C07"
LEVEL = "exploration"
RULE = ("cases = random class DAGs (diamonds) x 2-7 methods over 1-2 dispatched positions with priorities, replaced "
        "identical signatures, ambiguous lower ranks; any subset delegates (call_next / f.next / call_next with other "
        "arguments / recurse); built as plain function, variant, mixin combination or method with self x all argument "
        "class tuples (<= 150) with guided alternative arguments; distinct_nontrivial = distinct (program, call) pairs "
        "whose expected chain enters >= 3 methods or ends in a tied rank")
ASSUMPTIONS = [
    "plain-class annotations only (value-dependent delegation is exercised by C10 / C04)",
    "f.next is only generated in plain functions (the docs reserve variants and methods for call_next)",
    "a delegation issued from inside a tied rank is unspecified",
]
REPORT_COUNTERS = ["programs", "calls", "delegations", "chains_len3", "chains_end_amb", "chains_end_none",
                   "fresh_call_delegations", "mode_variant", "mode_mixin", "mode_method", "fnext_sites", "programs_types_as_arguments", "fnext_delegations_with_class_argument", "dep_programs", "keyed_group_programs", "programs_registering_while_a_method_runs", "registrations_made_by_a_running_method",
                   "dep_rank_shared"]


def plan(tier):
    n = 8000 if tier == "quick" else 120000
    return {"cases": n, "params": {}, "timeout_s": 1200 if tier == "quick" else 7200,
            "min": {"calls": 20_000, "delegations": 10_000, "chains_len3": 1_000, "chains_end_amb": 100,
                    "fresh_call_delegations": 200, "fnext_delegations_with_class_argument": 300, "mode_variant": 50, "mode_mixin": 50, "mode_method": 50}}


DEP_POOL = [["L", 0], ["L", 1], ["L", 2], ["L", 2, 3], ["L", 4], ["D", "int", "even"], ["D", "int", "ge3"],
            ["D", "int", "odd"], ["D", "MyInt", "even"], "int", "int", "MyInt", "object", "object", "str"]
DEP_VALUES = [["v", 0], ["v", 1], ["v", 2], ["v", 3], ["v", 4], ["v", 5], ["mi", 1], ["mi", 2], ["mi", 4],
              ["v", "a"], ["v", None], ["v", True]]


def _gen_dep_case(rng):
    """one dependent position (plus an optional common static second position): several value-dependent
    methods share a rank, each may delegate"""
    npos = rng.choice([1, 1, 2])
    methods = []
    if rng.random() < 0.3:
        # a keyed group: four or more single-valued Literal methods with disjoint values (looked up in a table), some of
        # which raise or delegate, over plain methods
        keys = rng.sample([0, 1, 2, 3, 4, 5], rng.randint(4, 6))
        for i, k in enumerate(keys):
            pos = [{"n": "a0", "t": ["L", k]}]
            if npos == 2:
                pos.append({"n": "a1", "t": "object"})
            methods.append({"mid": i, "pos": pos, "kw": [], "prio": 0, "kind": rng.choice(["leaf", "next", "next", "raise", "raise"])})
        for t in rng.sample(["int", "object", "MyInt"], rng.randint(1, 2)):
            pos = [{"n": "a0", "t": t}]
            if npos == 2:
                pos.append({"n": "a1", "t": "object"})
            methods.append({"mid": len(methods), "pos": pos, "kw": [], "prio": 0, "kind": rng.choice(["leaf", "next", "raise"])})
        return {"hier": [], "methods": methods, "npos": npos, "mode": "plain", "split": len(methods), "dep": True, "keyed": True,
                "callseed": rng.randrange(1 << 30)}
    for i in range(rng.randint(2, 7)):
        pos = [{"n": "a0", "t": rng.choice(DEP_POOL)}]
        if npos == 2:
            pos.append({"n": "a1", "t": rng.choice(["object", "object", "int"])})
        kind = rng.choice(["leaf", "next", "next", "next", "nextalt"])
        methods.append({"mid": i, "pos": pos, "kw": [], "prio": rng.choice([0, 0, 0, 0, 1, -1]), "kind": kind})
    return {"hier": [], "methods": methods, "npos": npos, "mode": "plain", "split": len(methods), "dep": True,
            "callseed": rng.randrange(1 << 30)}


def _gen_type_case(rng):
    """classes passed as arguments to `type[K]` methods over a single-inheritance tree (for a class the applicable
    methods form a chain, so the order is fixed by subtyping alone), next to `object`; the methods delegate with
    call_next and with f.next, and are called on classes and on instances"""
    n = rng.randint(3, 5)
    hier = [{"name": "K0", "bases": []}] + [{"name": f"K{i}", "bases": [f"K{rng.randrange(i)}"]} for i in range(1, n)]
    names = [h["name"] for h in hier]
    npos = rng.choice([1, 1, 2])
    second = rng.choice(["object", "int"])
    methods = []
    tys = [["Ty", nm] for nm in rng.sample(names, rng.randint(2, n))]
    if rng.random() < 0.3:
        tys.append(["Ty", "object"])
    if rng.random() < 0.75:
        tys.append("object")
    rng.shuffle(tys)
    for i, t in enumerate(tys):
        pos = [{"n": "a0", "t": t}] + ([{"n": "a1", "t": second}] if npos == 2 else [])
        if rng.random() < 0.3:
            pos.reverse()
            pos[0]["n"], pos[-1]["n"] = "a0", f"a{npos - 1}"
        methods.append({"mid": i, "pos": pos, "kw": [], "prio": 0, "kind": rng.choice(["leaf", "next", "next", "fnext", "fnext"])})
    calls = []
    for v in [["c", nm] for nm in names] + [["c", "int"], ["c", "object"]] + [["i", nm] for nm in names[:2]]:
        for m0 in methods[:2]:
            args = [v if not isinstance(p["t"], str) or p["t"] == "object" and npos == 1 else ["v", 1] for p in m0["pos"]]
            if npos == 2 and all(a == ["v", 1] for a in args):
                args[0] = v
            c = {"pos": args, "kw": {}, "alt": list(args)}
            if c not in calls:
                calls.append(c)
    return {"hier": hier, "methods": methods, "npos": npos, "mode": "plain", "split": len(methods), "types_as_arguments": True,
            "calls": calls, "callseed": rng.randrange(1 << 30)}


def gen_case(rng, params, idx):
    if idx % 12 == 7:
        return _gen_type_case(rng)
    if rng.random() < 0.25:
        return _gen_dep_case(rng)
    mode = rng.choice(["plain", "plain", "plain", "variant", "mixin", "method"])
    kinds = ["leaf", "next", "next", "next", "nextalt", "rec"] + (["fnext", "fnextalt"] if mode == "plain" else [])
    hier = gen.gen_hierarchy(rng, rng.randint(2, 6), attrs=False, p_multi=0.5)
    spec = gen.gen_program(rng, hier=hier, npos=rng.choice([1, 1, 2]), kinds=kinds, kw=0.0, other_arity=0.0,
                           repeat=0.2 if mode in ("plain", "method") else 0.0, extras=(), catchall=0.5)
    spec["mode"] = mode
    spec["split"] = rng.randint(1, max(1, len(spec["methods"]) - 1))
    if rng.random() < 0.2:
        # classes as arguments: a class object is an instance of its metaclass, so methods on ABCMeta / object apply to
        # it (no type[...] annotation anywhere: the plain lookup by type(argument) must be used by delegations too)
        for m in spec["methods"]:
            for p in m["pos"]:
                if rng.random() < 0.45:
                    p["t"] = rng.choice(["ABCMeta", "ABCMeta", "object"])
        spec["classes_as_arguments"] = True
    if mode in ("variant", "mixin") or spec.get("classes_as_arguments"):
        # identical signatures on different nodes *replace* instead of pushing down: keep them distinct
        seen, ms = set(), []
        for m in spec["methods"]:
            k = (tuple(p["t"] for p in m["pos"]), m["prio"])
            if k in seen:
                continue
            seen.add(k)
            ms.append(m)
        spec["methods"] = ms
        spec["split"] = min(spec["split"], len(ms))
    spec["callseed"] = rng.randrange(1 << 30)
    if mode == "plain" and spec["callseed"] % 4 == 0:
        for m in spec["methods"]:
            if m["kind"] == "next" and (m["mid"] + spec["callseed"]) % 3 == 0:
                m["regs"] = True      # registers a method (that never applies) the first times it runs, then delegates
                spec["registers_while_running"] = True
    return spec


def check_case(spec, res):
    import itertools
    import random
    pin()
    env = T.Env(spec["hier"])
    prog = Program(spec, env=env, tag="c07")
    if spec.get("registers_while_running"):
        res.count("programs_registering_while_a_method_runs")
        nreg = [0]

        def hook(mid):
            if nreg[0] >= 3:
                return
            nreg[0] += 1
            g = {}
            exec("def late(" + ", ".join(f"a{j}: bytes" for j in range(spec["npos"])) + "):\n    return 'late'\n", g)
            try:
                prog.ov.register(g["late"], priority=nreg[0])
                prog.bind()
                res.count("registrations_made_by_a_running_method")
            except Exception as e:  # noqa: BLE001
                if "locked for modifications" not in str(e):
                    raise
        prog.vf.ondemand_hook = hook
    methods = spec["methods"]
    res.count("programs")
    res.count("mode_" + spec["mode"])
    res.sample(spec, spec["mode"])
    res.count("fnext_sites", sum(1 for m in methods if m["kind"] in ("fnext", "fnextalt")))
    rng = random.Random(spec["callseed"])
    if spec.get("types_as_arguments"):
        res.count("programs_types_as_arguments")
    if spec.get("keyed"):
        res.count("keyed_group_programs")
    if spec.get("dep"):
        res.count("dep_programs")
        pool = DEP_VALUES
    else:
        pool = [["i", n] for n in [s["name"] for s in spec["hier"]] + ["object"]]
        if spec.get("classes_as_arguments"):
            res.count("programs_classes_as_arguments")
            pool = pool + [["c", "Shape"], ["c", "Hashable"], ["c", "Hook"], ["c", spec["hier"][0]["name"]], ["c", "int"]]
    tuples = list(itertools.product(pool, repeat=spec["npos"]))
    if len(tuples) > 150:
        tuples = rng.sample(tuples, 150)
    cg = gen.CallGen(spec, pool)
    prio = {m["mid"]: m.get("prio", 0) for m in methods}
    pk = [[[T.tname(p["t"]) for p in m["pos"]], m.get("prio", 0), m.get("kind")] for m in methods]
    calls = spec.get("calls") or [{"pos": list(tup), "kw": {}, "alt": cg.args(rng, spec["npos"])} for tup in tuples]
    for call in calls:
        tup = call["pos"]
        exp = R.expected(methods, call, env)
        out = prog.call(call)
        res.ev()
        res.count("calls")
        entered = out[1] if out[0] == "ran" else out[-1]
        res.count("delegations", max(0, len(entered) - 1))
        obs = _obs(out)
        # structural laws on same-argument chains
        chain = _same_arg_chain(out, methods)
        if chain is not None:
            if len(set(chain)) != len(chain):
                res.violation("method-visited-twice", ["twice"], spec, observed={"call": call, "chain": chain},
                              acceptable="each applicable method at most once")
            if any(prio[a] < prio[b] for a, b in zip(chain, chain[1:])):
                res.violation("rank-increases", ["prio"], spec, observed={"call": call, "chain": chain},
                              acceptable="non-increasing rank")
        if exp == R.WILD:
            res.skip_unspec()
            continue
        if len(entered) >= 3:
            res.count("chains_len3")
            res.nontrivial([pk, list(tup), call["alt"]])
        if exp[0] == "amb" and entered:
            res.count("chains_end_amb")
            res.nontrivial([pk, list(tup), call["alt"]])
        if exp[0] == "none" and entered:
            res.count("chains_end_none")
        if spec.get("types_as_arguments") and len(entered) >= 2 and any(v[0] == "c" for v in tup):
            res.count("fnext_delegations_with_class_argument",
                      sum(1 for m_ in entered[:-1] if methods[m_]["kind"] == "fnext"))
        if _has_fresh(exp, methods, call, env):
            res.count("fresh_call_delegations")
        if obs != norm(exp):
            finding = None
            fro = frozen.expected(methods, call, env)
            if fro is not None and norm(fro) == obs:
                finding = "F22" if _f22_region(entered, methods, call, env) else "F1"
            res.violation("chain-vs-model", [obs[0], exp[0], spec["mode"]], spec,
                          observed={"call": call, "outcome": obs, "entered": list(entered)},
                          acceptable=norm(exp), finding=finding)
    prog.close()


def _obs(out):
    if out[0] == "ran":
        return norm(("ran", out[2]))
    if out[0] in ("none", "bind"):
        return ("none",)
    if out[0] == "amb":
        return ("amb",)
    if out[0] == "user":
        return ("user", out[1])
    return norm(out[:3])


def _same_arg_chain(out, methods):
    """method ids entered, when every delegation kept its arguments (next / fnext only)"""
    by = {m["mid"]: m for m in methods}
    entered = out[1] if out[0] == "ran" else out[-1]
    if any(by[m]["kind"] in ("rec", "nextalt", "fnextalt") for m in entered[:-1]):
        return None
    return list(entered)


def _f22_region(entered, methods, call, env):
    """a value-dependent method delegated with *other* arguments for which it is a candidate by type
    (bounds hold) but not by value: the statement asks for a fresh call, the library continues below it"""
    by = {m["mid"]: m for m in methods}
    altcall = {"pos": call.get("alt", []), "kw": {}}
    for mid in entered:
        m = by[mid]
        if m["kind"] in ("nextalt", "fnextalt") and any(not isinstance(p["t"], str) for p in m["pos"]):
            if R.applicable(m, altcall, env) is False:
                bounds = dict(m, pos=[dict(p, t=(T.bound_of(p["t"], env) if not isinstance(p["t"], str) else p["t"]))
                                      for p in m["pos"]])
                if R.applicable(bounds, altcall, env) is True:
                    return True
    return False


def _has_fresh(exp, methods, call, env):
    """did the expected tree contain a nextalt delegation from a method not applicable to alt?"""
    if exp[0] != "ran":
        return False
    by = {m["mid"]: m for m in methods}
    altcall = {"pos": call.get("alt", []), "kw": {}}
    t = exp[1]
    while isinstance(t, tuple) and len(t) == 3:
        m = by[t[1]]
        if t[0] == "n" and m["kind"] in ("nextalt", "fnextalt") and R.applicable(m, altcall, env) is False:
            return True
        t = t[2]
    return False
