"""Re-confirm every kept seeded change against the current /repo head and refresh its meta.json:
    /venv/bin/python -m vf.seedrecheck [--par 3] [--own-only]

For each /verif/seeded/<name>/ (not _obsolete) the confirmation of vf.seedaccept is repeated with the same list of
checks that its meta.json records (or only the check of its own property with --own-only): the patch must apply to
/repo HEAD, the demonstration must pass on the unchanged tree and fail with the change, the repository's suite result
with the change is recorded, and the checks are run against a scratch copy.  Prints one line per change.
"""
import concurrent.futures
import json
import os
import subprocess
import sys

HERE = os.path.dirname(os.path.dirname(os.path.abspath(__file__)))


def one(name, own_only, jobs):
    d = os.path.join(HERE, "seeded", name)
    meta = json.load(open(os.path.join(d, "meta.json")))
    checks = [meta["property"]] if own_only else sorted(set(meta.get("checks") or {}) | {meta["property"]})
    env = dict(os.environ, VERIF_JOBS=str(jobs))
    r = subprocess.run([sys.executable, "-m", "vf.seedaccept", d, name, meta["property"], meta["needs_to_manifest"],
                        "--checks", ",".join(checks)], cwd=HERE, env=env, capture_output=True, text=True)
    try:
        new = json.load(open(os.path.join(d, "meta.json")))
    except Exception:  # noqa: BLE001
        return name, None, r.stdout[-300:] + r.stderr[-300:]
    return name, new, ""


def main(argv):
    par = int(argv[argv.index("--par") + 1]) if "--par" in argv else 3
    own_only = "--own-only" in argv
    names = sorted(n for n in os.listdir(os.path.join(HERE, "seeded"))
                   if os.path.exists(os.path.join(HERE, "seeded", n, "meta.json")))
    jobs = max(2, 16 // par)
    bad = 0
    with concurrent.futures.ThreadPoolExecutor(par) as ex:
        for name, m, err in ex.map(lambda n: one(n, own_only, jobs), names):
            if m is None:
                print(f"{name:58} ERROR {err}")
                bad += 1
                continue
            c = m["confirmed"]
            ok = (c["patch_applies_to_repo_head"] and c["demo_exit_unchanged"] == 0 and c["demo_exit_with_change"] not in (0, None)
                  and str(c["repository_tests_with_change"]).startswith("143 passed") and m["property"] in (m["caught_by"] or []))
            bad += not ok
            print(f"{name:58} {m['property']} applies={c['patch_applies_to_repo_head']} demo={c['demo_exit_unchanged']}/"
                  f"{c['demo_exit_with_change']} tests={str(c['repository_tests_with_change'])[:12]!r} caught_by={m['caught_by']}"
                  f"{'' if ok else '   <-- CHECK'}", flush=True)
    print(f"# {len(names)} changes re-confirmed against /repo {subprocess.run(['git', '-C', '/repo', 'rev-parse', '--short', 'HEAD'], capture_output=True, text=True).stdout.strip()}, {bad} need attention")
    return 0


if __name__ == "__main__":
    sys.exit(main(sys.argv[1:]))
