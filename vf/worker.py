"""One shard of one property's run:  python -m vf.worker <ID> <tier> <seed> <shard> <nshards> <out>

shard == -1 runs the committed known-finding witnesses and the module's fixed regression cases
instead of generated cases.
"""
import importlib
import json
import random
import sys
import time
import traceback

from . import boot  # noqa: F401  (must come first)
from .result import Result


def load(prop):
    return importlib.import_module(f"vf.props.{prop.lower()}")


def case_rng(prop, seed, idx):
    return random.Random(f"{prop}:{seed}:{idx}")


def run_shard(prop, tier, seed, shard, nshards):
    mod = load(prop)
    plan = mod.plan(tier)
    res = Result(prop)
    t0 = time.time()
    if hasattr(mod, "setup"):
        mod.setup(res)
    if shard == -1:
        specs = []
        from .findings import witnesses_for
        for fid, status, spec in witnesses_for(prop):
            specs.append((("witness", fid, status), spec))
        for i, spec in enumerate(getattr(mod, "fixed_cases", lambda t: [])(tier)):
            specs.append((("fixed", i), spec))
        for ref, spec in specs:
            res.case_ref = ref
            before = len(res.violations)
            kn_before = dict(res.known)
            _check(mod, spec, res)
            if ref[0] == "witness":
                fid = ref[1]
                fired = res.known.get(fid, 0) > kn_before.get(fid, 0)
                res.counters[f"witness_{fid}_{'fires' if fired else 'silent'}"] += 1
                newv = [v for v in res.violations[before:] if v["finding"] is None]
                if ref[2] == "open" and not fired and newv:
                    # the committed witness fails in a way its classifier does not accept
                    res.counters[f"witness_{fid}_unattributed"] += 1
    else:
        idxs = range(shard, plan["cases"], nshards)
        for idx in idxs:
            rng = case_rng(prop, seed, idx)
            res.case_ref = (seed, idx)
            try:
                spec = mod.gen_case(rng, plan.get("params", {}), idx)
            except Exception:
                res.harness_errors.append({"where": "gen_case", "case": [seed, idx],
                                           "tb": traceback.format_exc()[-1500:]})
                continue
            if spec is None:
                res.counters["gen_skipped"] += 1
                continue
            _check(mod, spec, res)
    if hasattr(mod, "teardown"):
        mod.teardown(res)
    out = res.dump()
    out["wall_s"] = time.time() - t0
    return out


def _check(mod, spec, res):
    try:
        mod.check_case(spec, res)
    except RecursionError:
        res.harness_errors.append({"where": "check_case(RecursionError)", "case": res.case_ref,
                                   "tb": traceback.format_exc()[-800:]})
    except Exception:
        res.harness_errors.append({"where": "check_case", "case": res.case_ref,
                                   "spec": spec if len(json.dumps(spec, default=repr)) < 4000 else "large",
                                   "tb": traceback.format_exc()[-1500:]})


def main(argv):
    prop, tier, seed, shard, nshards, out = argv
    data = run_shard(prop, tier, int(seed), int(shard), int(nshards))
    with open(out, "w") as f:
        json.dump(data, f)


if __name__ == "__main__":
    main(sys.argv[1:])
