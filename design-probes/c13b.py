import itertools, random, collections, collections.abc as cabc, typing
from ovld.mro import subclasscheck
from ovld.types import Union, Intersection, Exactly, StrictSubclass, HasMethod
class A: pass
class B(A): pass
class C(A):
    def meth(self): pass
class D(B, C): pass
class E: pass
classes = [object, A, B, C, D, E, int, bool, str, list, cabc.Sized, cabc.Iterable]
atoms = list(classes) + [Exactly[c] for c in (A, B, D)] + [StrictSubclass[c] for c in (A, B, int)] + [HasMethod["meth"]]
random.seed(0)
comb = []
for _ in range(120):
    a, b = random.sample(atoms, 2)
    comb.append(Union[a, b] if random.random() < 0.5 else Intersection[a, b])
gens = [list[int], list[bool], list[object], list[A], list[B], dict[str, A], dict[str, B], cabc.Iterable[int], cabc.Iterable[A], list, type[A], type[B], type[object], type, type[list[A]], type[list[B]]]
ALL = atoms + comb + gens
bad = collections.defaultdict(list)
def sc(a, b):
    try: return subclasscheck(a, b)
    except Exception as e: return ("EXC", type(e).__name__)
for t in ALL:
    if sc(t, t) is not True: bad["reflexive"].append((t, sc(t, t)))
# transitivity where first is a concrete class or generic/type[...] (what dispatch asks), and general
firsts = classes + gens
for a in firsts:
    for b in ALL:
        if sc(a, b) is True:
            for c in ALL:
                if sc(b, c) is True and sc(a, c) is not True: bad["transitive(dispatch-side)"].append((a, b, c, sc(a, c)))
n = 0
for a, b, c in itertools.product(ALL, repeat=3):
    n += 1
    if n > 400000: break
for a in ALL:
    for b in ALL:
        r = sc(a, b)
        if isinstance(r, tuple): bad["exception"].append((a, b, r))
# covariance
for g1, g2, exp in [(list[B], list[A], True), (list[A], list[B], False), (list[bool], list[int], True), (dict[str, B], dict[str, A], True), (list[int], cabc.Iterable[int], True), (list[bool], cabc.Iterable[int], True), (list[int], cabc.Iterable[A], False), (list[int], list, True), (list, list[int], False), (type[B], type[A], True), (type[list[B]], type[list[A]], True), (type[A], type, True)]:
    if sc(g1, g2) is not exp: bad["covariance"].append((g1, g2, sc(g1, g2), exp))
for c1 in classes:
    for c2 in classes:
        if sc(c1, c2) is not issubclass(c1, c2): bad["issubclass"].append((c1, c2))
for k, v in bad.items(): print(k, len(v), v[:4])
print("types", len(ALL))
