"""C18 - a failed build never leaves a half-built function in service.

Fault sources:
  injected  - with sys.monitoring LINE events restricted to library code, the lines executed by an operation are
              counted; then, for every n (quick: every 7th), the operation is repeated on a fresh instance and a
              BaseException is raised at the n-th executed library line (what an interrupt looks like).
              Operations: first call (lazy build + first resolution), rebuild after register() on a function in use,
              first lookup of a new argument-type tuple (cache miss), first call_next continuation.
  natural   - an invalid method (conflicting argument names, misuse of call_next, unreadable source) at every
              registration position; a user class predicate / Dependent condition that raises on its k-th invocation
              (every k); RecursionError: the operation started from a stack padded to every depth in the last frames
              below the recursion limit.
Oracle: after the fault every probe call yields the outcome of a never-faulted reference built from the complete set
of registered methods (for a fault inside register(): the complete set before *or* after that registration, the same
for all probes); with an invalid method still registered every call fails again with a configuration error (never a
dispatch verdict, never a method body); after unregister(bad) the probe vector equals the reference.
"""
import random
import sys

from .. import boot  # noqa: F401
from .. import gen, tx as T
from ..inject import INJECTOR, Injected
from ..methods import load_source
from ..observe import pin
from ..prog import Program, norm

import ovld
from ovld.utils import UsageError

ID = "C18"
LEVEL = "fault_enumeration"
RULE = ("cases = (random program with delegating, recursive and value-dependent methods) x scenario; injected scenarios "
        "enumerate the executed library lines of the operation as crash points (quick: every 7th, thorough: all); natural "
        "scenarios enumerate registration positions x 3 kinds of invalid method, predicate invocation indices, and "
        "stack depths; after each fault 8 probe calls are compared with the complete-set reference; distinct_nontrivial "
        "= distinct crash points (file, function, line) x scenario kind at which a fault was actually raised")
ASSUMPTIONS = [
    "faults are exceptions raised in the calling thread (an interrupt), not process death",
    "a fault inside register() may leave either the old or the new complete method set registered",
    "line events are counted deterministically for a given program (pinned iteration order, PYTHONHASHSEED=0)",
]
REPORT_COUNTERS = ["cases", "crash_points_enumerated", "faults_raised", "scn_first_call", "scn_rebuild", "scn_cache_miss",
                   "scn_next_chain", "scn_invalid_method", "scn_hook_raises", "scn_recursion", "probe_vectors_compared",
                   "invalid_method_positions", "invalid_method_via_linkback_parent", "invalid_method_via_parent_of_plain_copy", "invalid_method_swapped_for_valid", "invalid_method_after_first_build", "recursion_faults", "hook_faults", "post_fault_behaviours",
                   "rebuild_faults_probed_through_linked_copy", "registrations_repeated_after_a_fault", "registrations_repeated_straight_after_a_fault", "invalid_method_after_first_build_of_linked_copy",
                   "suspended_method_histories", "suspended_method_two_failed_builds", "recursive_calls_of_suspended_method_checked"]

SCENARIOS = ["first_call", "rebuild", "cache_miss", "next_chain", "invalid_method", "hook_raises", "recursion"]


def plan(tier):
    n = 84 if tier == "quick" else 210
    return {"cases": n, "params": {"stride": 7 if tier == "quick" else 1}, "timeout_s": 1800 if tier == "quick" else 14000,
            "min": {"faults_raised": 5_000, "scn_first_call": 8, "scn_rebuild": 8, "scn_cache_miss": 8, "scn_next_chain": 8,
                    "scn_invalid_method": 8, "scn_hook_raises": 8, "scn_recursion": 8, "invalid_method_positions": 30,
                    "recursion_faults": 100, "hook_faults": 30,
                    "suspended_method_two_failed_builds": 30, "recursive_calls_of_suspended_method_checked": 200}}


def gen_case(rng, params, idx):
    scn = SCENARIOS[idx % len(SCENARIOS)]
    hier = gen.gen_hierarchy(rng, rng.randint(2, 4), attrs=True)
    names = [s["name"] for s in hier]
    spec = gen.gen_program(rng, hier=hier, npos=rng.choice([1, 1, 2]), nmeth=(3, 6), dep=0.2,
                           kinds=("leaf", "next", "next", "rec", "fnext", "nextalt", "nextalt"), kw=0.0, other_arity=0.1, catchall=0.7,
                           p_strict=0.0 if scn == "invalid_method" else 0.15)
    if scn == "hook_raises" or rng.random() < 0.3:
        # make sure user predicates take part in resolution
        for m in spec["methods"][:2]:
            m["pos"][0]["t"] = rng.choice([["CC", "isk"], ["CC", "hasfly"], ["D", "int", "even"], ["D", "object", "truthy"],
                                           ["U", ["CC", "evenname"], "int"], "Hook", "Hook"])
    late = {"mid": 50, "pos": [{"n": f"a{j}", "t": rng.choice(names + ["int", "object"])} for j in range(spec["npos"])],
            "kw": [], "prio": rng.choice([0, 1]), "kind": rng.choice(["leaf", "next"])}
    if scn in ("first_call", "cache_miss", "next_chain", "hook_raises") and rng.random() < 0.5:
        # a top-priority wrapper that every call enters first and that delegates with *other* arguments when the
        # probe supplies them: later probes then reach the faulted types through call_next before any direct call
        spec["methods"].append({"mid": 40, "pos": [{"n": f"a{j}", "t": "object"} for j in range(spec["npos"])], "kw": [],
                                "prio": 2, "kind": "nextalt"})
    vals = gen.values_for(hier)
    cg = gen.CallGen(spec, vals)
    ops = [cg.call(rng, p_kw=0) for _ in range(3)]
    if scn == "hook_raises" and rng.random() < 0.6:
        # a plain-Python subclass hook (ABC.__subclasshook__) decides a method that matters for the faulted call
        hier[0]["hooked"] = True
        spec["methods"][0]["pos"][0]["t"] = "Hook"
        for c in ops[:2]:
            c["pos"][0] = ["i", hier[0]["name"]]
    # the first later calls reach the argument types of the faulted call *through a delegation* (call_next / recurse with
    # those arguments from a call on other types), before any direct call with them; then random calls; then the
    # faulted call itself
    via = [dict(ops[0], alt=list(ops[1]["pos"])), dict(ops[2], alt=list(ops[1]["pos"])), dict(ops[2], alt=list(ops[0]["pos"]))]
    spec.update(scenario=scn, late=late, probes=via + [cg.call(rng, p_kw=0) for _ in range(4)] + ops[:2],
                op_calls=ops, stride=params["stride"], offset=idx // len(SCENARIOS), badkind=rng.choice(["names", "callnext", "nosource"]))
    return spec


def _probe(prog, calls):
    """probe vector: resolve() first (it must not answer from a half-built table either), then the call"""
    out = []
    for i_, c in enumerate(calls):
        first = None
        if i_ == 0:
            # the very first thing after a fault is a plain call through the function, as a user would make it
            # (resolve() and f.next() re-check and rebuild by themselves, which would hide a function left half-built)
            first = norm(prog.call(c))
        try:
            r = prog.resolve(c)
            r = (r[0], r[1]) if r[0] == "handler" else r
        except BaseException as e:  # noqa: BLE001
            r = ("exc", type(e).__name__)
        # f.next(...) called from outside any method behaves like a fresh call - it must not answer from a
        # half-built table either (asked before the call, which may itself trigger the rebuild)
        nx = ("skipped",)
        if prog.instance is None and not c.get("kw"):
            from ..observe import outcome
            pos = prog.args(c)[0]
            prog.vf.alt = prog.args(c)[2]
            nx = norm(outcome(lambda: prog.ov.next(*pos), prog.vf, prog.names))
        out.append((norm(r), norm(prog.call(c)), nx) + ((first,) if first is not None else ()))
    return out


def _reference(spec, env, extra=None):
    p = Program(spec, env=env, tag="c18r", extra=extra)
    v = _probe(p, spec["probes"])
    p.close()
    return v


def check_case(spec, res):
    pin()
    INJECTOR.install()
    scn = spec["scenario"]
    env = T.Env(spec["hier"])
    env.predlog.keep = False
    res.count("cases")
    res.count("scn_" + scn)
    res.sample({k: spec[k] for k in ("hier", "methods", "npos", "scenario", "late", "badkind")} | {"probes": spec["probes"][:2]}, scn)
    try:
        ref = _reference(spec, env)
    except Exception:  # noqa: BLE001
        res.count("unbuildable")
        return
    behaviours = set()
    if scn in ("first_call", "rebuild", "cache_miss", "next_chain"):
        _injected(spec, env, res, ref, behaviours)
    elif scn == "invalid_method":
        _invalid(spec, env, res, ref, behaviours)
    elif scn == "hook_raises":
        _hook(spec, env, res, ref, behaviours)
    else:
        _recursion(spec, env, res, ref, behaviours)
    res.count("post_fault_behaviours", len(behaviours))
    _running(spec, env, res)


# ------------------------------------------------------------------------------------------- injected faults
def _setup(spec, env, scn):
    prog = Program(spec, env=env, tag="c18")
    c0, c1 = spec["op_calls"][0], spec["op_calls"][1]
    if scn == "first_call":
        a = prog.args(c0)
        op = lambda: prog.fn(*a[0])  # noqa: E731
        prog.vf.alt = a[2]
    elif scn == "cache_miss":
        prog.call(c0)
        a = prog.args(c1)
        prog.vf.alt = a[2]
        op = lambda: prog.fn(*a[0])  # noqa: E731
    elif scn == "next_chain":
        prog.ov.compile()
        a = prog.args(c1)
        prog.vf.alt = a[2]
        op = lambda: prog.fn(*a[0])  # noqa: E731
    else:  # rebuild
        prog.call(c0)
        fn = prog.make(spec["late"])
        parent = prog.ov
        if spec.get("offset", 0) % 2:
            # the function has a linked copy that is in use as well; the later probes go to the *copy*, which must
            # not be left behind when the rebuild of its parent is cut short
            prog.linked_child = parent.copy(linkback=True)
            a = prog.args(c0)
            try:
                prog.linked_child(*a[0])
            except Exception:  # noqa: BLE001
                pass
        prog.parent_ov = parent
        op = lambda: parent.register(fn, priority=spec["late"].get("prio", 0))  # noqa: E731
    return prog, op


def _injected(spec, env, res, ref, behaviours):
    scn = spec["scenario"]
    ref_new = _reference(spec, env, extra=[spec["late"]]) if scn == "rebuild" else None
    prog, op = _setup(spec, env, scn)

    def safe(thunk):
        def run():
            try:
                return thunk()
            except Injected:
                raise
            except Exception:  # noqa: BLE001  (dispatch errors of the operation itself are fine)
                return None
        return run
    prog.vf.clear()
    N = INJECTOR.count(safe(op))
    prog.close()
    res.count("crash_points_enumerated", N)
    # every stride-th line (offset varies with the case), plus *every* line of the functions that store to attributes,
    # items or globals - the windows in which a half-written table can be left behind
    points = set(range(1 + spec.get("offset", 0) % spec["stride"], N + 1, spec["stride"]))
    if spec["stride"] > 1:
        points |= set(INJECTOR.writer_lines[:: 2 if scn in ("first_call", "rebuild") else 1])
    res.count("crash_points_in_state_writing_functions", len(INJECTOR.writer_lines))
    for n in sorted(points):
        prog, op = _setup(spec, env, scn)
        prog.vf.clear()
        st = INJECTOR.run(safe(op), n)
        if st[0] != "injected":
            prog.close()
            continue
        res.ev()
        res.count("faults_raised")
        res.nontrivial([scn, list(st[1])])
        if scn == "rebuild" and n % 2 and getattr(prog, "linked_child", None) is None:
            # every other point: the registration that was cut short is made again straight away (if it did not get as
            # far as the definitions), before anything else looks at the function - it must show
            parent = prog.parent_ov
            lf = prog.fns.get(spec["late"]["mid"])
            if lf is not None and not any(f is lf for f in parent.defns.values()):
                try:
                    parent.register(lf, priority=spec["late"].get("prio", 0))
                    prog.bind()
                    got0 = [norm(prog.call(c)) for c in spec["probes"]]
                    res.count("registrations_repeated_straight_after_a_fault")
                    if got0 != [r_[1] for r_ in ref_new]:
                        res.violation("change-after-fault-not-taken", [scn, st[1][0], st[1][1], "straight-away"], spec,
                                      observed={"crash_point": [n, *st[1]],
                                                "calls": [{"call": c, "got": g_, "reference": r_[1]}
                                                          for c, g_, r_ in zip(spec["probes"], got0, ref_new) if g_ != r_[1]][:3]},
                                      acceptable="a registration made after the fault is part of the function")
                        prog.close()
                        return
                except Exception as e:  # noqa: BLE001
                    if isinstance(e, Injected):
                        raise
        if scn == "rebuild":
            if getattr(prog, "linked_child", None) is not None:
                # the parent is asked first (a fresh call rebuilds it), then the probes go to the linked copy
                a = prog.args(spec["op_calls"][0])
                try:
                    prog.fn(*a[0])
                except Exception:  # noqa: BLE001
                    pass
                late_in = any(f is prog.fns.get(spec["late"]["mid"]) for f in prog.ov.defns.values())
                prog.ov = prog.linked_child
                res.count("rebuild_faults_probed_through_linked_copy")
            prog.bind()
        got = _probe(prog, spec["probes"])
        res.count("probe_vectors_compared")
        behaviours.add(repr(got))
        ok = got == ref or (ref_new is not None and got == ref_new)
        if ok and scn == "rebuild" and getattr(prog, "linked_child", None) is not None:
            # ... and the copy agrees with its parent about whether the new method is there
            ok = got == (ref_new if late_in else ref) or ref == ref_new
        if not ok:
            res.violation("post-fault-probes-vs-complete-set", [scn, st[1][0], st[1][1]], spec,
                          observed={"crash_point": [n, *st[1]], "probes": _diff(got, ref, spec["probes"])},
                          acceptable="every probe behaves as on a never-faulted function built from the complete method set")
            prog.close()
            return
        if scn == "rebuild":
            # and the function goes on taking changes: the registration that was cut short is made again (if it did
            # not get as far as the definitions), this time undisturbed, and must show
            parent = prog.parent_ov
            lf = prog.fns.get(spec["late"]["mid"])
            if lf is not None and not any(f is lf for f in parent.defns.values()):
                try:
                    parent.register(lf, priority=spec["late"].get("prio", 0))
                except Exception:  # noqa: BLE001
                    lf = None
                if lf is not None:
                    prog.bind()
                    got2 = _probe(prog, spec["probes"])
                    res.count("registrations_repeated_after_a_fault")
                    if got2 != ref_new:
                        res.violation("change-after-fault-not-taken", [scn, st[1][0], st[1][1]], spec,
                                      observed={"crash_point": [n, *st[1]], "probes": _diff(got2, ref_new, spec["probes"])},
                                      acceptable="a registration made after the fault is part of the function")
                        prog.close()
                        return
        prog.close()


def _diff(got, ref, calls):
    return [{"call": c, "after_fault": g, "reference": r} for c, g, r in zip(calls, got, ref) if g != r][:3]


# ------------------------------------------------------------------------------------------- invalid method
def _bad_method(kind, spec, ns, vf):
    npos = spec["npos"]
    if kind == "names":
        params = ", ".join(f"a{j}" for j in reversed(range(max(2, npos))))
        src = f"def bad({params}):\n    return 'bad'\n"
        nsx, f = load_source(src, ns, tag="c18bad", shared=True)
        fn = nsx["bad"]
        fn.__annotations__ = {f"a{j}": int for j in range(max(2, npos))}
        return fn
    if kind == "callnext":
        params = ", ".join(f"a{j}" for j in range(npos))
        src = f"def bad({params}):\n    return call_next\n"
        nsx, f = load_source(src, ns, tag="c18bad", shared=True)
        fn = nsx["bad"]
        fn.__annotations__ = {f"a{j}": float for j in range(npos)}
        return fn
    # unreadable source: compiled without any linecache entry, and it uses recurse so that it must be rewritten
    params = ", ".join(f"a{j}" for j in range(npos))
    g = {"recurse": ovld.recurse}
    exec(compile(f"def bad({params}):\n    return recurse({params})\n", "<nowhere>", "exec"), g)
    fn = g["bad"]
    fn.__annotations__ = {f"a{j}": float for j in range(npos)}
    return fn


def _is_config_error(out):
    if out[0] != "exc":
        return False
    return out[1] in ("TypeError", "UsageError", "OSError", "AssertionError")


def _invalid(spec, env, res, ref, behaviours):
    from ovld import Ovld
    methods = spec["methods"]
    for p in range(len(methods) + 1):
        # every other position: the methods (and the invalid one) live on a parent and the function under test is a
        # linkback copy of it - the offending method is then removed through the parent
        linkback = p % 2 == 1 or (p == len(methods) and spec.get("offset", 0) % 2 == 0)
        pre_child = None
        # every third position: one valid method is only registered by the repair itself (offender out, that method
        # in, before the next call) - the number of registered methods is then the same before and after the repair
        swap = p % 3 == 2 and len(methods) >= 2
        prog = Program(spec, env=env, tag="c18i", build=False)
        prog.ov = Ovld()
        bad = _bad_method(spec["badkind"], spec, prog.ns, prog.vf)
        try:
            for i, m in enumerate(methods):
                if i == p:
                    prog.ov.register(bad)
                if swap and i == len(methods) - 1:
                    continue
                prog.ov.register(prog.make(m), priority=m.get("prio", 0))
            if p == len(methods):
                # last position: the function is *built and used* before the offender arrives, so that registering it
                # means a failing re-build (the registration itself then raises, the method stays registered)
                try:
                    prog.bind()
                    _probe(prog, spec["probes"][:2])
                    res.count("invalid_method_after_first_build")
                    if linkback:
                        # ... and so is its linked copy: the offender reaches it through a parent whose own
                        # re-build fails
                        pre_child = prog.ov.copy(linkback=True)
                        par_ = prog.ov
                        prog.ov = pre_child
                        prog.bind()
                        _probe(prog, spec["probes"][:2])
                        prog.ov = par_
                        prog.bind()
                        res.count("invalid_method_after_first_build_of_linked_copy")
                except Exception:  # noqa: BLE001
                    pass
                try:
                    prog.ov.register(bad)
                except Exception:  # noqa: BLE001
                    if bad not in prog.ov.defns.values():
                        raise
        except Exception as e:  # noqa: BLE001
            res.count("invalid_rejected_at_registration")
            continue
        parent = prog.ov
        if not linkback and p % 4 == 2:
            # a *plain* copy: a build that fails must not hold the parent to anything - the offender lives there and
            # has to be removable through it
            prog.ov = parent.copy()
            res.count("invalid_method_via_parent_of_plain_copy")
        if linkback:
            prog.ov = pre_child if pre_child is not None else parent.copy(linkback=True)
            res.count("invalid_method_via_linkback_parent")
        prog.bind()
        res.ev()
        res.count("invalid_method_positions")
        res.count("faults_raised")
        res.nontrivial(["invalid", spec["badkind"], p, len(methods)])
        outs = _probe(prog, spec["probes"])
        outs2 = _probe(prog, spec["probes"])
        behaviours.add(repr(outs))
        for label, vec in (("first-pass", outs), ("second-pass", outs2)):
            for c, (r, o, nx, *_first) in zip(spec["probes"], vec):
                if _first and not _is_config_error(_first[0]):
                    res.violation("call-answered-while-invalid-method-registered", [spec["badkind"], label, _first[0][0], "first"], spec,
                                  observed={"position": p, "call": c, "outcome": _first[0]},
                                  acceptable="a configuration error (never a dispatch verdict or a method body)")
                    prog.close()
                    return
                if nx != ("skipped",) and not _is_config_error(nx):
                    res.violation("next-answered-while-invalid-method-registered", [spec["badkind"], label, nx[0]], spec,
                                  observed={"position": p, "call": c, "f.next": nx},
                                  acceptable="a configuration error")
                    prog.close()
                    return
                if r[0] in ("handler", "none", "amb"):
                    res.violation("resolve-answered-while-invalid-method-registered", [spec["badkind"], label, r[0]], spec,
                                  observed={"position": p, "call": c, "resolve": r},
                                  acceptable="a configuration error")
                    prog.close()
                    return
                if not _is_config_error(o):
                    res.violation("call-answered-while-invalid-method-registered", [spec["badkind"], label, o[0]], spec,
                                  observed={"position": p, "call": c, "outcome": o},
                                  acceptable="a configuration error (never a dispatch verdict or a method body)")
                    prog.close()
                    return
        try:
            parent.unregister(bad)
            if swap:
                m = methods[-1]
                parent.register(prog.make(m), priority=m.get("prio", 0))
                res.count("invalid_method_swapped_for_valid")
        except Exception as e:  # noqa: BLE001
            res.violation("unregister-of-invalid-method-fails", [spec["badkind"], type(e).__name__], spec,
                          observed={"position": p, "error": f"{type(e).__name__}: {e}"[:160]}, acceptable="the function works normally once the offending method is removed")
            prog.close()
            return
        if prog.ov is not parent:
            try:   # a copy only gets its entry point when it is first built; f.next bodies name it
                prog.ov.ensure_compiled()
            except Exception:  # noqa: BLE001
                pass
        prog.bind()
        got = _probe(prog, spec["probes"])
        res.count("probe_vectors_compared")
        if got != ref:
            res.violation("not-repaired-by-unregister", [spec["badkind"]], spec,
                          observed={"position": p, "probes": _diff(got, ref, spec["probes"])},
                          acceptable="after unregister(bad) the function behaves like the complete valid set")
            prog.close()
            return
        # and it goes on taking changes: one more (valid) method is registered and must show
        try:
            parent.register(prog.make(spec["late"]), priority=spec["late"].get("prio", 0))
            prog.bind()
            ref_late = _reference(spec, env, extra=[spec["late"]])
        except Exception:  # noqa: BLE001
            prog.close()
            continue
        got2 = _probe(prog, spec["probes"])
        res.count("probe_vectors_compared")
        if got2 != ref_late:
            res.violation("change-after-repair-not-taken", [spec["badkind"]], spec,
                          observed={"position": p, "probes": _diff(got2, ref_late, spec["probes"])},
                          acceptable="a method registered after the repair is part of the function")
            prog.close()
            return
        prog.close()


def _running(spec, env, res):
    """A method of the last good build is suspended half-way (a generator that yields its recursive calls one by
    one) while an invalid method arrives, two builds fail, and the offender is removed: each of its recursive calls
    is a later call like any other - a configuration error or the answer of the complete set, never a verdict from
    the partially filled table of a failed attempt."""
    from ovld import Ovld
    from ..observe import outcome
    if spec["npos"] != 1:
        return
    methods = spec["methods"]
    kind = spec["badkind"]
    if kind == "names":      # fails before any method is rewritten: nothing is half-built then
        kind = "callnext" if len(methods) % 3 else "nosource"
    linkback = len(methods) % 2 == 0
    prog = Program(spec, env=env, tag="c18g", build=False)
    split = len(methods) // 2 if linkback else len(methods)
    parent = Ovld()
    for m in methods[:split]:
        parent.register(prog.make(m), priority=m.get("prio", 0))
    prog.ov = parent.copy(linkback=True) if linkback else parent
    for m in methods[split:]:
        prog.ov.register(prog.make(m), priority=m.get("prio", 0))
    nsx, f = load_source("def f(a0):\n    for x in a0:\n        yield lambda: recurse(x)\n", prog.ns, tag="c18g", shared=True)
    prog.files.append(f)
    walker = nsx["f"]
    walker.__annotations__ = {"a0": list}
    prog.ov.register(walker, priority=100)
    bad = _bad_method(kind, spec, prog.ns, prog.vf)
    probes = [c for c in spec["probes"] if not c.get("kw") and len(c["pos"]) == 1]
    if len(probes) < 4:
        return
    try:
        prog.bind()
        prog.ov.compile()
        prog.bind()
        direct = [norm(prog.call(c)) for c in probes]
        gen_ = prog.fn([prog.args(c)[0][0] for c in probes])
    except Exception:  # noqa: BLE001
        prog.close()
        return
    if type(gen_).__name__ != "generator":
        prog.close()
        return
    res.ev()
    res.count("suspended_method_histories")

    def step(i):
        th = next(gen_)
        prog.vf.alt = prog.args(probes[i])[2]
        return norm(outcome(th, prog.vf, prog.names))

    def bad_step(stage, i, got, allowed_error):
        if got == direct[i] or (allowed_error and _is_config_error(got)):
            res.count("recursive_calls_of_suspended_method_checked")
            return False
        res.violation("suspended-method-resolves-in-partial-table", [kind, stage, got[0]], spec,
                      observed={"stage": stage, "call": probes[i], "recurse_gave": got, "direct_call_of_complete_set": direct[i],
                                "linkback": linkback},
                      acceptable="a configuration error (while the offender is registered) or the answer of the complete set")
        prog.close()
        return True

    n = len(probes)
    i = 0
    if bad_step("before", i, step(i), False):
        return
    i += 1
    try:
        parent.register(bad)
        failed = False
    except Exception:  # noqa: BLE001
        failed = True
    late = None
    if not linkback:
        # one more valid method arrives after the offender: in the next attempt it comes after the point of failure
        late = prog.make(spec["late"])
        try:
            prog.ov.register(late, priority=spec["late"].get("prio", 0))
        except Exception:  # noqa: BLE001
            pass
    second = norm(prog.call(probes[0]))         # a second failed attempt
    if not failed or not _is_config_error(second):
        prog.close()
        return
    res.count("suspended_method_two_failed_builds")
    while i < n - 2:
        if bad_step("offender-registered", i, step(i), True):
            return
        i += 1
    try:
        parent.unregister(bad)
        if late is not None and late in prog.ov.defns.values():
            prog.ov.unregister(late)
    except Exception:  # noqa: BLE001
        prog.close()
        return      # reported by the invalid-method pass
    prog.bind()
    while i < n:
        if bad_step("offender-removed", i, step(i), False):
            return
        i += 1
    prog.close()


# ------------------------------------------------------------------------------------------- hook raises
def _hook(spec, env0, res, ref, behaviours):
    for scn in ("first_call", "cache_miss"):
        # a fresh environment (classes, ABCs) per run: ABCMeta caches subclass answers, so a hook that already
        # answered for a class is never asked again for it
        env = T.Env(spec["hier"])
        env.predlog.keep = False
        prog, op = _setup(spec, env, scn)
        env.predlog.fault_at, env.predlog.fault_count = 10 ** 9, 0
        try:
            op()
        except Exception:  # noqa: BLE001
            pass
        total = env.predlog.fault_count
        env.predlog.fault_at = None
        prog.close()
        for k in range(1, total + 1):
            env = T.Env(spec["hier"])
            env.predlog.keep = False
            prog, op = _setup(spec, env, scn)
            env.predlog.fault_at, env.predlog.fault_count = k, 0
            raised = False
            try:
                op()
            except T.HookFault:
                raised = True
            except Exception:  # noqa: BLE001
                pass
            fired = env.predlog.fault_count >= k
            env.predlog.fault_at = None
            if not fired:
                prog.close()
                continue
            if not raised:
                res.count("hook_faults_swallowed_by_library")   # evidence; the probes below decide
            res.ev()
            res.count("hook_faults")
            res.count("faults_raised")
            res.nontrivial(["hook", scn, k])
            got = _probe(prog, spec["probes"])
            res.count("probe_vectors_compared")
            behaviours.add(repr(got))
            if got != ref:
                res.violation("post-hook-fault-probes-vs-complete-set", [scn], spec,
                              observed={"kth_invocation": k, "probes": _diff(got, ref, spec["probes"])},
                              acceptable="probes behave as on a never-faulted function")
                prog.close()
                return
            prog.close()


# ------------------------------------------------------------------------------------------- RecursionError
def _at_depth(d, fn):
    if d <= 0:
        return fn()
    return _at_depth(d - 1, fn)


def _recursion(spec, env, res, ref, behaviours):
    old = sys.getrecursionlimit()
    base = len(__import__("inspect").stack(0)) + 5
    limit = base + 330
    for scn in ("first_call", "cache_miss", "rebuild"):
        ref_new = _reference(spec, env, extra=[spec["late"]]) if scn == "rebuild" else None
        for d in range(limit - base - 170, limit - base, 2 if spec["stride"] > 1 else 1):
            prog, op = _setup(spec, env, scn)
            sys.setrecursionlimit(limit)
            fault = False
            try:
                _at_depth(d, op)
            except RecursionError:
                fault = True
            except Exception:  # noqa: BLE001
                pass
            finally:
                sys.setrecursionlimit(old)
            if not fault:
                prog.close()
                continue
            res.ev()
            res.count("recursion_faults")
            res.count("faults_raised")
            res.nontrivial(["recursion", scn, d])
            if scn == "rebuild":
                prog.bind()
            got = _probe(prog, spec["probes"])
            res.count("probe_vectors_compared")
            behaviours.add(repr(got))
            if not (got == ref or (ref_new is not None and got == ref_new)):
                res.violation("post-recursionerror-probes-vs-complete-set", [scn], spec,
                              observed={"padding_depth": d, "probes": _diff(got, ref, spec["probes"])},
                              acceptable="probes behave as on a never-faulted function")
                prog.close()
                return
            prog.close()
