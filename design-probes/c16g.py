import sys, random, collections
from h import *
import pin
from ovld import Ovld
F9=[0]
T = [int, str, float, list, bytes]
VAL = {int: 1, str: "s", float: 2.5, list: [], bytes: b"b"}
def mkm(mid, t, prio=0):
    return dict(mid=mid, params=["x"], anns={"x": t}, body=[f"return ({mid},)"], prio=prio, t=t)
def run(seed):
    rng = random.Random(seed)
    nodes = []   # each: dict(ov, parents, linkback, own: ordered dict sig->mid(list), used)
    fns = {}     # mid -> (fn, t)
    mids = itertools.count()
    log = []; alarms = []
    def model_table(n):
        tab = {}
        for p in n["parents"]: tab.update(model_table(p))
        tab.update({t: st[-1] for t, st in n["own"].items() if st})
        return tab
    def probe(n):
        out = []
        for t in T:
            out.append(outcome(lambda: n["ov"](VAL[t]))[:2])
        return out
    def expected(n):
        tab = model_table(n)   # key: t -> mid  (one method per type; re-register replaces -> pushdown ignored (no call_next))
        out = []
        for t in T:
            out.append(("ran", (tab[t],)) if t in tab else None)
        return out
    def check_all(step):
        for i, n in enumerate(nodes):
            if not n["used"]: continue      # probing = using; only probe nodes already put to use
            got = probe(n); exp = expected(n)
            for t, g, e in zip(T, got, exp):
                if e is None:
                    if g[0] == "ran": alarms.append((step, i, t.__name__, g, "expected no method"))
                elif g != e: alarms.append((step, i, t.__name__, g, e))
    for step in range(rng.randint(4, 14)):
        op = rng.choice(["new", "copy", "copy", "variant", "register", "register", "register", "unregister", "use", "use", "addmixin"])
        try:
            if op == "new" or not nodes:
                nodes.append(dict(ov=Ovld(), parents=[], own={}, used=False, lb=False)); log.append(("new", len(nodes)-1))
            elif op in ("copy", "variant"):
                p = rng.choice(nodes); lb = rng.random() < 0.4
                extra = [q for q in rng.sample(nodes, min(len(nodes), rng.choice([0, 0, 1]))) if q is not p]
                ov = p["ov"].copy(mixins=[q["ov"] for q in extra], linkback=lb)
                nodes.append(dict(ov=ov, parents=[p] + extra, own={}, used=False, lb=lb)); log.append((op, nodes.index(p), [nodes.index(q) for q in extra], lb, len(nodes)-1))
            elif op == "register":
                n = rng.choice(nodes); t = rng.choice(T); mid = next(mids)
                fn = make_fn(mid, ["x"], {"x": t}, [f"return ({mid},)"]); fns[mid] = fn
                log.append(("register", nodes.index(n), t.__name__, mid))
                try:
                    n["ov"].register(fn); n["own"].setdefault(t, []).append(mid)
                except Exception as e:
                    if "locked" not in str(e): raise
                    log.append(("refused",))
            elif op == "unregister":
                n = rng.choice(nodes)
                cand = [(t, m) for t, st in n["own"].items() for m in st]
                if cand:
                    t, mid = rng.choice(cand)
                    log.append(("unregister", nodes.index(n), t.__name__, mid))
                    try:
                        n["ov"].unregister(fns[mid]); n["own"][t].remove(mid)
                    except Exception as e:
                        if "locked" not in str(e): raise
                        log.append(("refused",))
            elif op == "use":
                n = rng.choice(nodes); n["used"] = True; log.append(("use", nodes.index(n)))
            elif op == "addmixin":
                n, q = rng.choice(nodes), rng.choice(nodes)
                if q is not n and not n["used"] and q not in n["parents"]:
                    # avoid cycles: q must not derive from n
                    def anc(x): return {id(x)} | set().union(*[anc(p) for p in x["parents"]]) if x["parents"] else {id(x)}
                    if id(n) not in anc(q):
                        log.append(("addmixin", nodes.index(n), nodes.index(q)))
                        try:
                            n["ov"].add_mixins(q["ov"]); n["parents"].append(q)
                        except Exception as e:
                            if "locked" not in str(e): raise
                            log.append(("refused",))
        except Exception as e:
            alarms.append((step, "EXC", type(e).__name__, str(e)[:80])); break
        if log and log[-1][0] in ("register","unregister","addmixin"):
            tgt = nodes[log[-1][1]]
            # edges: child -> parents; nodes record lb on the child (all its parent edges share lb)
            def paths(d, a):
                """all paths from descendant d up to ancestor a as lists of (child) nodes whose edge is taken"""
                if d is a: return [[]]
                out = []
                for p in d["parents"]:
                    for rest in paths(p, a): out.append([d] + rest)
                return out
            for d in nodes:
                if d is tgt or not d["used"]: continue
                ps = paths(d, tgt)
                if not ps: continue
                all_linked = any(all(c["lb"] for c in path) for path in ps)
                direct_nonlb = any(len(path) == 1 and not path[0]["lb"] for path in ps)
                if not all_linked and not direct_nonlb:
                    F9[0] += 1; return log, []      # ancestor beyond a direct parent, broken link somewhere: F9 territory
        check_all(step)
        if alarms: break
    return log, alarms
stats = collections.Counter(); exs = []
for seed in range(int(sys.argv[1])):
    log, alarms = run(seed)
    stats["progs"] += 1; stats["alarm_progs"] += bool(alarms)
    if alarms and len(exs) < 8: exs.append((seed, log, alarms[:2]))
print(stats, 'F9-attributed', F9)
for e in exs: print(e)
