"""Type / value expressions and their *documented meaning*.

Everything a generated case contains is a JSON-able expression; this module turns such
expressions into (a) real Python objects handed to ovld the way a user would write them and
(b) an independent semantics (written from docs/*.md and the property statements, never by
calling into ovld) that the monitors use as oracle.

Type expressions (``tx``):
    "K3" / "int" / "object"        a class of the case's environment
    ["U", a, b, ...]               union            ["I", a, b, ...]   intersection
    ["X", a]  Exactly              ["S", a]  StrictSubclass           ["H", "name"] HasMethod
    ["CC", pred]                   class_check(pred) with a named class predicate
    ["L", v, ...]                  Literal[v, ...]  (ints / strs / bools)
    ["D", bound, pred]             Dependent[bound, pred] with a named value predicate
    ["T", a, ...]                  tuple[a, ...]
    ["Ls", a] list[a]   ["Sq", a] Sequence[a]   ["Co", a] Collection[a]
    ["Mp", k, v] Mapping[k, v]     ["Dc", k, v] dict[k, v]
    ["Rx", pat] ["SW", s] ["EW", s] ["HK", key, ...]
    ["Ty", a]                      type[a]
    ["G", origin, a, ...]          plain generic alias origin[a, ...] (used under type[...])
    ["Df", "module.Class"]         Deferred["module.Class"]

Value expressions (``vx``):
    ["i", "K3"]  instance          ["v", scalar]  int/str/bool/None/float literal
    ["mi", n] MyInt(n)  ["ms", s] MyStr(s)
    ["t", vx...] tuple  ["l", vx...] list  ["d", [kx, vx]...] dict
    ["c", tx]   a class / generic alias passed as an argument     ["any"] typing.Any
"""
import abc
import importlib.util
import collections.abc as cabc
import re
import typing

from . import boot  # noqa: F401
import ovld
from ovld import Dependent
from ovld.types import (
    Deferred,
    Exactly,
    HasMethod,
    Intersection,
    StrictSubclass,
    class_check,
)
from ovld.dependent import EndsWith, HasKey, Regexp, StartsWith

UNSPEC = None


# --------------------------------------------------------------------------- predicates
def _num(v):
    return isinstance(v, (int, float)) and not isinstance(v, complex)


VALUE_PREDS = {
    # name: raw predicate, total on every value (returns False outside its natural domain)
    "ge3": lambda v: _num(v) and v >= 3,
    "lt3": lambda v: _num(v) and v < 3,
    "even": lambda v: isinstance(v, int) and v % 2 == 0,
    "odd": lambda v: isinstance(v, int) and v % 2 == 1,
    "neg": lambda v: _num(v) and v < 0,
    "pos": lambda v: _num(v) and v > 0,
    "truthy": lambda v: bool(v),
    "falsy": lambda v: not bool(v),
    "startsA": lambda v: isinstance(v, str) and v.startswith("a"),
    "short": lambda v: hasattr(v, "__len__") and len(v) <= 1,
    "always": lambda v: True,
    "never": lambda v: False,
}

CLASS_PREDS = {
    "evenname": lambda c: c.__name__[-1:] in "02468",
    "hasfly": lambda c: hasattr(c, "fly"),
    "isk": lambda c: c.__name__.startswith("K"),
    "nobase": lambda c: c.__bases__ == (object,),
}


class HookFault(Exception):
    """raised by a harness predicate on request (natural fault source for C18)"""


class PredLog:
    """Shared log of user-predicate invocations (C10 guard clause, C20 counters)."""

    def __init__(self):
        self.value_calls = []  # (predname, boundname, value_ok_for_bound, repr)
        self.class_calls = 0
        self.value_count = 0
        self.hook_calls = 0    # __type_order__ / __is_supertype__ hooks of harness classes
        self.keep = True
        self.fault_at = None   # C18: raise HookFault inside the k-th predicate invocation
        self.fault_count = 0

    def clear(self):
        self.value_calls.clear()
        self.class_calls = 0
        self.value_count = 0
        self.hook_calls = 0


# --------------------------------------------------------------------------- environment
class Env:
    """Classes of one generated case, by name.  Fresh ABCs / protocols per Env so that
    ABC registries and caches never leak between cases."""

    BUILTINS = {
        "object": object, "int": int, "bool": bool, "str": str, "float": float,
        "list": list, "tuple": tuple, "dict": dict, "NoneType": type(None),
        "set": set, "bytes": bytes, "type": type, "ABCMeta": abc.ABCMeta,
    }

    def __init__(self, hier=(), predlog=None):
        self.names = dict(self.BUILTINS)
        self.predlog = predlog or PredLog()
        self.predlog = self.predlog
        self._dep_cache = {}
        self._cc_cache = {}

        @typing.runtime_checkable
        class HasFly(typing.Protocol):
            def fly(self): ...

        @typing.runtime_checkable
        class HasFly2(typing.Protocol):     # a second protocol with the same member: mutual structural subclasses
            def fly(self): ...

        class Shape(abc.ABC):
            pass

        plog = self.predlog

        class Hook(abc.ABC):
            @classmethod
            def __subclasshook__(cls, C):
                if cls is Hook:
                    # a plain-Python subclass hook is a user hook too (C18 fault source, C20 counter)
                    plog.class_calls += 1
                    if plog.fault_at is not None:
                        plog.fault_count += 1
                        if plog.fault_count == plog.fault_at:
                            raise HookFault("Hook.__subclasshook__")
                    return True if hasattr(C, "hooked") else NotImplemented
                return NotImplemented

        class MyInt(int):
            pass

        class MyStr(str):
            pass

        import enum

        class Color(enum.IntEnum):     # members are ints whose repr is not Python source for the value
            RED = 1
            BLUE = 2

        self.names["Color"] = Color
        self.names["Hashable"] = cabc.Hashable      # object and Hashable are subclasses of each other
        for c in (HasFly, HasFly2, Shape, Hook, MyInt, MyStr):
            c.__module__ = "vfcase"
            c.__qualname__ = c.__name__
            self.names[c.__name__] = c
        self.user = []
        for spec in hier:
            self.add_class(spec)

    def add_class(self, spec):
        ns = {"__module__": "vfcase"}
        if spec.get("fly"):
            ns["fly"] = lambda self: 1
        if spec.get("hooked"):
            ns["hooked"] = True
        if spec.get("meth"):
            ns["meth"] = lambda self: 2
        if spec.get("len"):
            ns["__len__"] = lambda self: 0
        bases = tuple(self.names[b] for b in spec.get("bases") or ["object"])
        meta = type
        if spec.get("ordhook") or any(type(b) is not type and getattr(type(b), "__vf_hookmeta__", False) for b in bases):
            meta = self.hookmeta()
        c = meta(spec["name"], bases, ns)
        if spec.get("shape"):
            self.names["Shape"].register(c)
        self.names[spec["name"]] = c
        self.user.append(c)
        return c

    def hookmeta(self):
        """metaclass whose instances carry user order / subtype hooks that only count and defer"""
        if getattr(self, "_hookmeta", None) is None:
            log = self.predlog

            class HookMeta(type):
                __vf_hookmeta__ = True

                def __type_order__(cls, other):
                    log.hook_calls += 1
                    return NotImplemented

                def __is_supertype__(cls, other):
                    log.hook_calls += 1
                    return NotImplemented

            self._hookmeta = HookMeta
        return self._hookmeta

    def cls(self, name):
        return self.names[name]

    # -- harness-owned predicates (monitored) ------------------------------------------------
    def value_pred(self, predname, bound_tx):
        key = (predname, tname(bound_tx))
        if key not in self._dep_cache:
            raw = VALUE_PREDS[predname]
            log = self.predlog
            env = self
            bname = tname(bound_tx)

            def pred(v):
                log.value_count += 1
                if log.fault_at is not None:
                    log.fault_count += 1
                    if log.fault_count == log.fault_at:
                        raise HookFault(predname)
                if log.keep:
                    ok = accepts(bound_tx, env, v)
                    if ok is not True or len(log.value_calls) < 64:
                        log.value_calls.append((predname, bname, ok, repr(v)[:40]))
                return raw(v)

            pred.__name__ = pred.__qualname__ = f"{predname}_{re.sub('[^A-Za-z0-9]', '_', bname)}"
            self._dep_cache[key] = pred
        return self._dep_cache[key]

    def shared_check(self, predname):
        """one @dependent_check condition object (declared on int) that a user reuses under several bounds: bare, and
        as Dependent[other_bound, that_object]"""
        key = ("shared", predname)
        if key not in self._dep_cache:
            raw = VALUE_PREDS[predname]
            log = self.predlog

            def cond(value: int):
                log.value_count += 1
                if log.fault_at is not None:
                    log.fault_count += 1
                    if log.fault_count == log.fault_at:
                        raise HookFault(predname)
                return raw(value)

            cond.__name__ = cond.__qualname__ = f"shared_{predname}"
            self._dep_cache[key] = ovld.dependent.dependent_check(cond)
        return self._dep_cache[key]

    def wild_check(self):
        """a parametrised @dependent_check type the way docs/dependent.md writes `Shape`: declared on tuple, parameters
        are values or typing.Any wildcards"""
        key = ("wild",)
        if key not in self._dep_cache:
            log = self.predlog

            def Wild(value: tuple, *shape):
                log.value_count += 1
                if log.fault_at is not None:
                    log.fault_count += 1
                    if log.fault_count == log.fault_at:
                        raise HookFault("Wild")
                ok = isinstance(value, tuple)
                if log.keep and (not ok or len(log.value_calls) < 64):
                    log.value_calls.append(("Wild", "tuple", ok, repr(value)[:40]))
                return ok and len(value) == len(shape) and all(s is typing.Any or e == s for e, s in zip(value, shape))

            self._dep_cache[key] = ovld.dependent.dependent_check(Wild)
        return self._dep_cache[key]

    def class_pred(self, predname):
        if predname not in self._cc_cache:
            raw = CLASS_PREDS[predname]
            log = self.predlog

            def cpred(c):
                log.class_calls += 1
                if log.fault_at is not None:
                    log.fault_count += 1
                    if log.fault_count == log.fault_at:
                        raise HookFault(predname)
                return isinstance(c, type) and raw(c)

            cpred.__name__ = cpred.__qualname__ = f"cc_{predname}"
            self._cc_cache[predname] = class_check(cpred)
        return self._cc_cache[predname]


# --------------------------------------------------------------------------- names
def tname(tx):
    if isinstance(tx, str):
        return tx
    h, *a = tx
    if h == "L":
        # the values of a Literal form a set: canonical name independent of their order
        return "L[" + ",".join(sorted((repr(x) for x in a), key=lambda r: (r[:1] in "'\"", r))) + "]"
    if h in ("H", "CC", "Rx", "SW", "EW", "Df"):
        return f"{h}[{a[0]!r}]"
    if h == "HK":
        return "HK[" + ",".join(repr(x) for x in a) + "]"
    if h == "W":
        return "W[" + ",".join(str(x) for x in a) + "]"
    if h == "D":
        return f"D[{tname(a[0])},{a[1]}" + (",shared]" if len(a) > 2 else "]")
    if h == "G":
        return f"{a[0]}[" + ",".join(tname(x) for x in a[1:]) + "]"
    if h in ("U", "I"):
        # unions / intersections are sets of members: the canonical name does not depend on their order
        return h + "[" + ",".join(sorted(tname(x) for x in a)) + "]"
    return h + "[" + ",".join(tname(x) for x in a) + "]"


VALUE_DEP_HEADS = {"L", "D", "W", "T", "Ls", "Sq", "Co", "Mp", "Dc", "Rx", "SW", "EW", "HK"}


def is_valuedep(tx):
    if isinstance(tx, str):
        return False
    if tx[0] in VALUE_DEP_HEADS:
        return True
    if tx[0] in ("U", "I"):
        return any(is_valuedep(a) for a in tx[1:])
    return False


def heads(tx, acc=None):
    acc = set() if acc is None else acc
    if isinstance(tx, str):
        acc.add("C")
    else:
        acc.add(tx[0])
        for a in tx[1:]:
            if isinstance(a, (list, tuple)) and tx[0] not in ("L", "HK", "H", "CC", "Rx", "SW", "EW", "Df", "W"):
                heads(a, acc)
            elif isinstance(a, str) and tx[0] in ("U", "I", "X", "S", "T", "Ls", "Sq", "Co", "Mp", "Dc", "Ty", "D"):
                acc.add("C")
    return acc


def depth(tx):
    if isinstance(tx, str):
        return 0
    if tx[0] in ("L", "HK", "H", "CC", "Rx", "SW", "EW", "Df", "W"):
        return 1
    subs = [a for a in tx[1:] if not (tx[0] == "D" and a is tx[2])]
    if tx[0] == "G":
        subs = tx[2:]
    return 1 + max([depth(a) for a in subs] or [0])


# --------------------------------------------------------------------------- annotations
_ORIGINS = {
    "list": list, "dict": dict, "tuple": tuple, "set": set,
    "Sequence": cabc.Sequence, "Collection": cabc.Collection, "Mapping": cabc.Mapping,
    "Iterable": cabc.Iterable, "type": type,
}


def ann(tx, env, spelling="typing"):
    """Build the annotation object the way a user writes it.

    spelling: how unions are written at this level: 'typing' (typing.Union), 'pipe' (a | b),
    'tuple' ((a, b))."""
    if isinstance(tx, str):
        if tx == "Any":
            return typing.Any      # only as an argument of a *passed* generic (C14), never in an annotation
        return env.cls(tx)
    h, *a = tx
    if h == "U":
        ms = [ann(x, env, spelling) for x in a]
        if len(ms) == 1:
            return ms[0]
        if spelling == "pipe":
            r = ms[0]
            for m in ms[1:]:
                r = r | m
            return r
        if spelling == "tuple":
            return tuple(ms)
        return typing.Union[tuple(ms)]
    if h == "I":
        # Intersection[...] does not pass its members through the normalizer, so a member that
        # needs normalising (a union, a Literal, tuple[...]) is handed over in normalised form -
        # raw typing objects inside Intersection[...] would be harness misuse, not a user spelling.
        from ovld.types import normalize_type
        ms = [normalize_type(ann(x, env, spelling), None) for x in a]
        return Intersection[tuple(ms)]
    if h == "X":
        return Exactly[ann(a[0], env)]
    if h == "S":
        return StrictSubclass[ann(a[0], env)]
    if h == "H":
        return HasMethod[a[0]]
    if h == "CC":
        return env.class_pred(a[0])
    if h == "L":
        return typing.Literal[tuple(_litvals(a, env))]
    if h == "W":
        # ["W", p0, p1, ...]: pi a value or "*" (typing.Any, the documented wildcard)
        key = ("W", tname(tx))
        if key not in env._dep_cache:
            ps = tuple(typing.Any if x == "*" else x for x in a)
            env._dep_cache[key] = env.wild_check()[ps if len(ps) != 1 else ps[0]]
        return env._dep_cache[key]
    if h == "D" and len(a) > 2 and a[2] == "shared":
        # ["D", bound, pred, "shared"]: the shared condition object, bare when the bound is its own (int)
        c = env.shared_check(a[1])
        if a[0] == "int":
            return c
        key = ("Dsh", tname(tx))
        if key not in env._dep_cache:
            env._dep_cache[key] = Dependent[ann(a[0], env), c]
        return env._dep_cache[key]
    if h == "D":
        # one object per (bound, predicate), the way a user names a dependent type once and reuses it
        key = ("D", tname(tx))
        if key not in env._dep_cache:
            env._dep_cache[key] = Dependent[ann(a[0], env), env.value_pred(a[1], a[0])]
        return env._dep_cache[key]
    if h == "T":
        return tuple[tuple(ann(x, env) for x in a)] if a else tuple[()]
    if h == "Ls":
        return list[ann(a[0], env)]
    if h == "Sq":
        return cabc.Sequence[ann(a[0], env)]
    if h == "Co":
        return cabc.Collection[ann(a[0], env)]
    if h == "Mp":
        return cabc.Mapping[ann(a[0], env), ann(a[1], env)]
    if h == "Dc":
        return dict[ann(a[0], env), ann(a[1], env)]
    if h == "Rx":
        return Regexp[a[0]]
    if h == "SW":
        return StartsWith[a[0]]
    if h == "EW":
        return EndsWith[a[0]]
    if h == "HK":
        return HasKey[tuple(a)] if len(a) != 1 else HasKey[a[0]]
    if h == "Ty":
        return type[ann(a[0], env)]
    if h == "G":
        o = _ORIGINS[a[0]] if a[0] in _ORIGINS else env.cls(a[0])
        args = tuple(ann(x, env) for x in a[1:])
        return o[args if len(args) != 1 else args[0]]
    if h == "Df":
        return Deferred[a[0]]
    raise ValueError(tx)


# --------------------------------------------------------------------------- values
def value(vx, env):
    h, *a = vx
    if h == "i":
        return env.cls(a[0])()
    if h == "en":
        return env.cls("Color")[a[0]]
    if h == "v" and a[0] in ("inf", "-inf"):
        return float(a[0])
    if h == "v":
        v = a[0]
        # equal-but-not-identical objects: a dispatcher that compares with `is` must not get away with it
        if type(v) is int and abs(v) > 256:
            return int(str(v))
        if type(v) is str and len(v) > 1:
            return "".join(list(v))
        return v
    if h == "mi":
        return env.cls("MyInt")(a[0])
    if h == "ms":
        return env.cls("MyStr")(a[0])
    if h == "t":
        return tuple(value(x, env) for x in a)
    if h == "l":
        return [value(x, env) for x in a]
    if h == "d":
        return {value(k, env): value(v, env) for k, v in a}
    if h == "c":
        return ann(a[0], env)
    if h == "any":
        return typing.Any
    raise ValueError(vx)


def vname(vx):
    h, *a = vx
    if h == "i":
        return a[0] + "()"
    if h == "v":
        return repr(a[0])
    if h in ("mi", "ms", "en"):
        return f"{h}({a[0]!r})"
    if h in ("t", "l"):
        return h + "(" + ",".join(vname(x) for x in a) + ")"
    if h == "d":
        return "d(" + ",".join(vname(k) + ":" + vname(v) for k, v in a) + ")"
    if h == "c":
        return "cls:" + tname(a[0])
    return h


# --------------------------------------------------------------------------- meaning
def _and3(xs):
    xs = list(xs)
    if any(x is False for x in xs):
        return False
    if any(x is None for x in xs):
        return None
    return True


def _or3(xs):
    xs = list(xs)
    if any(x is True for x in xs):
        return True
    if any(x is None for x in xs):
        return None
    return False


def cls_sat(tx, env, C):
    """Documented meaning of a *non value-dependent* type on a class."""
    if isinstance(tx, str):
        try:
            return issubclass(C, env.cls(tx))
        except TypeError:
            return False
    h, *a = tx
    if h == "U":
        return any(cls_sat(x, env, C) for x in a)
    if h == "I":
        return all(cls_sat(x, env, C) for x in a)
    if h == "X":
        return C is env.cls(a[0])
    if h == "S":
        b = env.cls(a[0])
        return isinstance(C, type) and issubclass(C, b) and C is not b
    if h == "H":
        return hasattr(C, a[0])
    if h == "CC":
        return isinstance(C, type) and CLASS_PREDS[a[0]](C)
    if h == "Df":
        mod, _, rest = a[0].partition(".")
        cm = (getattr(C, "__module__", "") or "").split(".", 1)[0]
        if cm != mod:
            return False
        import importlib
        import sys
        cur = importlib.import_module(mod)
        path = mod
        for part in rest.split("."):
            path += "." + part
            if not hasattr(cur, part) and path not in sys.modules and importlib.util.find_spec(path) is not None:
                return False      # names a submodule that nobody has imported: no class of it exists yet
            cur = getattr(cur, part)
        return issubclass(C, cur)
    raise ValueError(("cls_sat on value-dependent / unknown type", tx))


def _litvals(a, env):
    """members of a Literal: plain JSON values, or value expressions (["en", "RED"], ["mi", 1], ["v", "inf"])"""
    return [value(x, env) if isinstance(x, list) else x for x in a]


def _lit(values, v):
    """Literal[v1..vn] on v.  A Literal value matches what is equal to it *and* an instance of its type (the bound
    of a Literal is the type of its values: Literal[True] is about bools, so 1 does not match it, while True - a
    bool, hence an int - matches Literal[1]).  Only when the Literal mixes types and v equals a value of one type
    while being an instance of another one is the answer left open (None)."""
    cross = False
    for x in values:
        try:
            eq = bool(x == v)
        except Exception:
            eq = False
        if eq:
            if isinstance(v, type(x)):
                return True
            cross = True
    if cross and len({type(x) for x in values}) > 1 and any(isinstance(v, type(x)) for x in values):
        return None
    return False


def accepts(tx, env, v):
    """Documented meaning of any type on a *value*: True / False / None (unspecified)."""
    if isinstance(tx, str) or tx[0] in ("X", "S", "H", "CC", "Df"):
        return cls_sat(tx, env, type(v))
    h, *a = tx
    if h == "U":
        return _or3(accepts(x, env, v) for x in a)
    if h == "I":
        return _and3(accepts(x, env, v) for x in a)
    if h == "L":
        return _lit(_litvals(a, env), v)
    if h == "D":
        b = accepts(a[0], env, v)
        if b is not True:
            return b
        return bool(VALUE_PREDS[a[1]](v))
    if h == "W":
        return isinstance(v, tuple) and len(v) == len(a) and all(s == "*" or e == s for e, s in zip(v, a))
    if h == "T":
        if not isinstance(v, tuple) or len(v) != len(a):
            return False
        return _and3(accepts(x, env, e) for x, e in zip(a, v))
    if h == "Ls":
        if not isinstance(v, list):
            return False
        return True if not v else accepts(a[0], env, v[0])
    if h == "Sq":
        if not isinstance(v, cabc.Sequence):
            return False
        return True if not v else accepts(a[0], env, v[0])
    if h == "Co":
        if not isinstance(v, cabc.Collection):
            return False
        for e in v:
            return accepts(a[0], env, e)
        return True
    if h in ("Mp", "Dc"):
        if not isinstance(v, dict if h == "Dc" else cabc.Mapping):
            return False
        for k in v:
            return _and3([accepts(a[0], env, k), accepts(a[1], env, v[k])])
        return True
    if h == "Rx":
        return isinstance(v, str) and bool(re.search(a[0], v))
    if h == "SW":
        return isinstance(v, str) and v.startswith(a[0])
    if h == "EW":
        return isinstance(v, str) and v.endswith(a[0])
    if h == "HK":
        return isinstance(v, cabc.Mapping) and all(k in v for k in a)
    if h == "Ty":
        return type_arg_sat(a[0], env, v)
    raise ValueError(tx)


def type_arg_sat(tx, env, passed):
    """type[tx] on a *passed type object* (C14): independent subtype model."""
    if passed is typing.Any:
        passed = object
    target = ann(tx, env) if not isinstance(tx, str) else env.cls(tx)
    return _subtype(passed, target)


def _subtype(p, t):
    po, to = typing.get_origin(p), typing.get_origin(t)
    if p is typing.Any:
        p = object
    if to is None and po is None:
        if isinstance(p, type) and isinstance(t, type):
            return issubclass(p, t)
        return False
    if to is None:  # generic passed, plain class expected
        return isinstance(po, type) and isinstance(t, type) and issubclass(po, t)
    if po is None:  # plain class passed where a parametrised generic is expected
        return False
    if not (isinstance(po, type) and isinstance(to, type) and issubclass(po, to)):
        return False
    pa, ta = typing.get_args(p), typing.get_args(t)
    if len(pa) != len(ta):
        return False
    return all(_subtype(x, y) for x, y in zip(pa, ta))


def bound_of(tx, env):
    """The bound (a tx) of a value-dependent type, as documented."""
    h = tx[0]
    if h == "L":
        ts = {type(x).__name__ for x in _litvals(tx[1:], env)}
        return sorted(ts)[0] if len(ts) == 1 else ["U", *sorted(ts)]
    if h == "D":
        return tx[1]
    if h in ("T", "W"):
        return "tuple"
    if h in ("Ls",):
        return "list"
    if h == "Dc":
        return "dict"
    if h in ("Rx", "SW", "EW"):
        return "str"
    return None
